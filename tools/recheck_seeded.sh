#!/bin/sh
# tools/recheck_seeded.sh [pattern]: apply every kept seeded patch (seeded/<change>/patch.diff) to a scratch worktree of
# /repo HEAD outside /repo and /verif, run the property's quick check against it and report caught / MISSED / n.a.
# (n.a. = the patch no longer applies because a later fix: commit touched the same lines).
cd "$(dirname "$0")/.." || exit 2
WT=${RECHECK_WT:-/tmp/wt_recheck}
git -C /repo worktree add -q --detach "$WT" HEAD 2>/dev/null || git -C "$WT" checkout -q --detach "$(git -C /repo rev-parse HEAD)"
for d in seeded/${1:-C*}; do
  [ -f "$d/patch.diff" ] || continue
  name=$(basename "$d"); id=${name%%_*}
  git -C "$WT" checkout -q -- . ; git -C "$WT" clean -fdq semantiva
  if ! git -C "$WT" apply "$PWD/$d/patch.diff" 2>/dev/null; then echo "$name n.a. (patch does not apply on HEAD)"; continue; fi
  out=$(VERIF_REPO=$WT PYTHONPATH=$WT ./vcheck $id --tier quick --no-shrink 2>&1); rc=$?
  n=$(echo "$out" | grep -c VIOLATION)
  if [ $rc -eq 1 ] && [ "$n" -gt 0 ]; then echo "$name caught ($n buckets)"; else echo "$name MISSED rc=$rc"; fi
done
git -C "$WT" checkout -q -- .
git -C /repo worktree remove --force "$WT"
