#!/venv/bin/python
"""Regenerate /verif/MANIFEST.json from the table below (run from /verif)."""
import json
import os

ROOT = os.path.dirname(os.path.dirname(os.path.abspath(__file__)))

BASELINE_OFF = ("cd /repo && /venv/bin/python -m pytest -ra -q -p no:cacheprovider --timeout=900 "
                "--continue-on-collection-errors")

CHECKS = {
    "C11": dict(
        technique="exhaustive grammar enumeration (depth<=3) + escape-idiom embedding + Hypothesis-random trees + coverage-guided token-sequence fuzzing (atheris/libFuzzer, oracle inside the target); differential oracle vs independent ast.walk whitelist checker; bytecode and audit-hook confinement oracle",
        text=("Generated-input search: every ast.expr kind of the interpreter composed exhaustively to depth 2 and by "
              "single-path embedding to depth 3 (~4.5e5 distinct sources quick, ~1.3e6 thorough), a sandbox-escape corpus "
              "embedded at every child position, random deeper trees, and libFuzzer campaigns over token sequences (24k inputs quick, 3M thorough) guided by coverage of safe_eval. Accept => safe is decided against an independent "
              "whitelist walker; every accepted expression is additionally checked at bytecode level and evaluated under an "
              "audit hook. Exhaustive to the stated bound, no claim beyond it."),
        note="Trusts CPython's ast/dis/audit-hook machinery and the restated whitelist (node kinds, operators, 8 functions).",
        design="DESIGN.md section 4 C11"),
}

CHECKS["C12"] = dict(
    technique="exhaustive enumeration of expression trees (polynomial fragment by normal forms, extended fragment by exact grid evaluation) + Hypothesis-random trees + coverage-guided fuzzing of byte-decoded expression trees (atheris/libFuzzer, coverage of semantic_id.py); signature-bucket soundness oracle, metamorphic commutation/re-association relation, single-operator mutation discrimination",
    text=("Generated-input search: all trees up to 7 (quick) / 8 (thorough) nodes of the polynomial fragment and up to 5/6 nodes of "
          "the extended fragment, plus random trees with up to 10 leaves over the full operator set. Every signature bucket is "
          "checked for value agreement (own polynomial normal form / exact integer grid), every tree against its mirrored, "
          "left- and right-associated and randomly permuted forms, and against every single-operator mutation. Exhaustive to the "
          "stated size, sampled beyond."),
    note="Trusts Python int arithmetic and the harness' 30-line polynomial normal form; value agreement outside the polynomial fragment is decided on the grid {-2..2}^3 only.",
    design="DESIGN.md section 4 C12")

CHECKS["C01"] = dict(
    technique="Hypothesis-generated pipeline programs; stepwise differential oracle against an independent reference interpreter of the documented node semantics (recording transport + return value + sink files)",
    text=("Generated-input search over node sequences x parameter placements x initial contexts x payloads (16k cases quick, 80k "
          "thorough, in 250-case fresh-interpreter shards). Each case is executed by semantiva and by a reference interpreter "
          "written from the documentation; final data/context, every per-node post-state, the failing node index, the exception "
          "type and sink files must agree. Sampling, not exhaustive: no claim beyond the explored cases."),
    note="Trusts the ~400-line reference interpreter (itself validated by 0 disagreements on the unchanged tree and by seeded mutants), Hypothesis, CPython float arithmetic.",
    design="DESIGN.md section 4 C01")

CHECKS["C02"] = dict(
    technique="Hypothesis-generated pipeline programs biased to flow hazards; implication oracle (clean inspection + required keys => no flow failure, classified by reference model and real traceback) and per-node fact oracle against a recording transport and the reference interpreter's parameter log",
    text=("Generated-input search (12.8k cases quick, 70k thorough): every generated configuration is inspected and validated; accepted "
          "ones are executed with exactly the reported required keys and with a superset. Any unresolved/missing/deleted key, unknown "
          "parameter or type-gate failure after a clean inspection is a violation; per-node created/suppressed keys, parameter origins "
          "and unknown-parameter names are compared with the observed run. Sampling; no claim beyond explored cases."),
    note="Trusts the reference interpreter (validated by C01), the recording transport, and the first-node-payload guard (inspection cannot know the caller's payload).",
    design="DESIGN.md section 4 C02")

CHECKS["C03"] = dict(
    technique="Hypothesis-generated sweep specifications inside surrounding pipelines; differential oracle against an independent reference sweep expander (own linspace/geometric progression, sorted-name product, zip/cycle, eval of vetted expressions), both YAML-block and Python-API construction paths",
    text=("Generated-input search (8k cases quick, 64k thorough) over sweep specs (expression templates include re-association-sensitive and sum-of-products forms) x wrapped kind x placements of non-swept parameters x "
          "surrounding nodes. Element count, order, every element value, the typed collection class, probe result lists with "
          "data pass-through, rejection of unequal lengths, and <var>_values for every variable and kind are compared with the "
          "reference expander. Sampling; no claim beyond explored cases."),
    note="Trusts the reference expander inside the model (~80 lines) and rtol 1e-9 for range-derived floats.",
    design="DESIGN.md section 4 C03")

CHECKS["C06"] = dict(
    category="fault_enumeration",
    technique="Hypothesis-generated pipelines x injected fault kind x node index x detail level x output mode; stream-grammar, registry-schema and cross-record invariant oracle; differential against the untraced run (exception identity); /proc/self/fd probe",
    text=("Fault injection by generation (9.6k cases quick, 56k thorough): a pre-built exception object (ValueError, RuntimeError, "
          "KeyboardInterrupt, BaseException subclass, message-less / tuple-args / SystemExit objects) is raised at a generated node or by a processor constructor, an unusual but legal value (non-finite float, mixed-key dict, bytes, numpy array, lone surrogate ...) is planted among the traced parameters, or a construction error (unknown parameter incl. non-string names, probe without key) is planted at a generated "
          "node, on top of the generator's own unresolved-parameter / type-gate / undeclared-write failures. Every emitted line is "
          "schema-validated via the registry; the stream grammar, shared ids, node order, upstream lists, statuses, pipeline_end "
          "status, exception identity and file closure are checked independently."),
    note="Trusts jsonschema/referencing, /proc/self/fd, and the untraced run as the reference for which nodes started.",
    design="DESIGN.md section 4 C06")

CHECKS["C07"] = dict(
    technique="Hypothesis-generated pipelines and contexts executed traced in child processes under four host time zones; SER fields compared with the reference interpreter's per-node log and a recording transport; digest-chain and equal-content metamorphic relations; wall-clock bracket oracle for timestamps",
    text=("Generated-input search (7.2k cases quick, 42k thorough; each TZ in its own interpreter). For every SER: created/updated "
          "keys vs the exact context diff, processor.ref vs the class that ran, every resolved parameter's value and channel vs the "
          "reference log, the four built-in checks vs the stated conditions, digest chains and equal-content digests (also across two "
          "runs), non-negative durations, and every timestamp parsed as RFC 3339 'Z' and bracketed by the harness' own UTC clock."),
    note="Trusts the reference interpreter (C01), the recording transport, time.time() of the harness process (+-2 s).",
    design="DESIGN.md section 4 C07")

CHECKS["C10"] = dict(
    technique="Hypothesis-generated execution histories (other pipelines between two executions of the same configuration, fresh vs reused Pipeline object); differential oracle traced vs untraced; round-trip oracle on normalised JSONL of two traced runs",
    text=("Generated-input search over histories (3.5k histories quick, 33k thorough): (a) attaching JsonlTraceDriver at any detail "
          "level must not change returned data/context, exception type/text, failing node index, intermediate published states or sink "
          "files; (b) the two traces of the same configuration must be identical after removing run id, timestamps, durations and "
          "sequence numbers, whatever ran in between and whether or not the Pipeline object is reused; (c) a sample of cases is traced again in a brand-new interpreter (no history at all) and compared record by record; non-finite parameters and one-shot iterators are generated variants."),
    note="Trusts the recording transport and the JSON reader; the set of volatile fields is the documented one and nothing else is masked.",
    design="DESIGN.md section 4 C10")

CHECKS["C04"] = dict(
    technique="Hypothesis-generated configurations x guarded meaning-preserving YAML rewriter (metamorphic: rewrite => identical identity record) x four observation paths (differential) x child processes with different hash seed / TZ / cwd / shifted clock / processing order (cross-process differential) x re-observation after a long in-process history",
    text=("Generated-input search (720 configs x 4 rewrites x 4 process variants quick; 6.4k configs thorough). One identity record per "
          "configuration meaning (node UUIDs, pipeline ID, semantic ID, config ID, node semantic IDs, whole inspection payload, sorted "
          "required keys, run-space spec ID) must be equal under every rewrite, through inspection payload / Pipeline construction / "
          "pipeline_start (first run and reused object) / `semantiva inspect` stdout, in every process variant and at every history "
          "position."),
    note="Trusts PyYAML as the reference reader for the rewrite guard (type-strict reload equality) and the regexes that read `inspect` stdout.",
    design="DESIGN.md section 4 C04")
CHECKS["C05"] = dict(
    technique="Hypothesis-generated configurations x exhaustive single-point semantic mutation operators at every applicable position; metamorphic inequality oracle on semantic ID, config ID and the affected node's UUID / node semantic ID; UUID distinctness invariant",
    text=("Generated-input search (1.3k configs, ~28k (config, mutation) pairs quick; 12k configs thorough). Every identity-bearing field "
          "named by the property has its own mutation operator (45 operators, incl. one-ulp / whitespace / case / list-order changes of parameter values, sequence element / order / type changes, and AST-level changes of sweep expressions: operands of non-commutative operators and chained comparisons, conditional branches), applied wherever it applies; a mutation that leaves "
          "semantic ID or config ID or the affected node's identity unchanged is a violation."),
    note="Trusts the mutation guard (type-strict inequality of the configuration modulo +/* commutation).",
    design="DESIGN.md section 4 C05")

CHECKS["C08"] = dict(
    technique="Hypothesis-generated run_space specifications with source files written per case; differential oracle against an independent reference expander (ordered list equality, rejection-class sets); tracemalloc-based deterministic promptness oracle on 1e4..1e5-run products",
    text=("Generated-input search (9.6k specs quick, 128k thorough) over blocks x modes x key collisions x empty lists x csv/json/yaml/"
          "ndjson sources with select/rename x caps, through expand_run_space and through the YAML parser. The expansion must equal the "
          "reference list exactly (order, values with type strictness, union of keys) or be rejected with an applicable class and the "
          "right actual/max numbers; an over-cap product must be rejected with memory peak < 5% of its materialisation cost."),
    note="Trusts the ~120-line reference expander, csv/json/yaml writers, tracemalloc.",
    design="DESIGN.md section 4 C08")

CHECKS["C13"] = dict(
    category="fault_enumeration",
    technique="real runtime traces (generated single runs and CLI launches) x exhaustive prefix enumeration (crash at every line) with a reference verdict; Hypothesis-drawn permutations, per-file-order interleavings and subsets with a metamorphic order-independence oracle; idempotent-finalise invariant",
    text=("Crash-point enumeration over real traces (2.4k traces quick -> ~50k (trace, cut) and (trace, order) evaluations; 51k traces "
          "thorough): every prefix of every emitted trace is aggregated and compared with a 30-line reference verdict (status, missing "
          "edge named, missing nodes, no orphans, launch roll-ups); every drawn order of every drawn subset must give the verdict of "
          "the same set in emission order, also when fed to a long-lived aggregator finalised after every record and when handed over as list / generator / iterator / one by one; retried launches (one id, attempts 1 and 2) are aggregated together; finalising twice must change nothing."),
    note="Trusts the reference verdict function and the reconstruction of directory-mode emission order (sequential single-process writer).",
    design="DESIGN.md section 4 C13")

CHECKS["C14"] = dict(
    category="model_checking",
    technique="harness-owned deterministic thread scheduler over the real transport code (sys.settrace line events + cooperative-lock shim); stateless DFS enumeration of all schedules of tiny scenarios up to a preemption bound; Hypothesis-generated choice lists for larger scenarios; multiset / per-channel order / pattern oracle",
    text=("Systematic schedule exploration of the implementation itself (no abstract model): every interleaving of 10 tiny scenarios (incl. a consumer that leaves after one message, a subscription closed by another thread, character-class and overlapping-star patterns) at "
          "line granularity of in_memory.py is enumerated exhaustively up to 2 preemptions (quick; 3 thorough; one less for the 3-thread "
          "and 4-message scenarios), ~2.3k schedules quick, plus 6.6k (quick) / 135k (thorough) generated schedules of larger scenarios "
          "with 2-3 publishers, 1-2 exact/wildcard subscribers and existing / new channels; after every schedule a sequential epilogue drains each pattern with a fresh subscription, then '*', so that 'delivered to a matching subscription' is decided per pattern. Every schedule is replayable from its choice list."),
    note="Granularity limit: one module, line events, one runnable thread at a time; races inside a single line or inside C code of deque/dict are out of reach. The module's threading name is shimmed.",
    design="DESIGN.md section 4 C14")

CHECKS["C15"] = dict(
    technique="Hypothesis-generated job batches run on real master/worker threads with perturbed scheduling (worker count, switch interval, enqueue timing, a stall that blocks the enqueuing thread inside enqueue(), failing job position and failure kind); differential oracle against the direct Pipeline run; quiescence-based (not stopwatch-based) decision of 'never completes'",
    text=("Generated-input search over batches (224 batches quick, 1.1k batches of up to 40 jobs thorough): each job has its own prime "
          "factor and payload so loss, duplication and cross-talk are visible; every future must complete exactly once with the direct "
          "run's (data, context) plus job_id, one status publication per job, master alive; a raising job must complete exceptionally. "
          "The schedule is perturbed, not owned: this finds correlation/loss bugs that are schedule-insensitive or frequent."),
    note="Weaker than C14: real threads, perturbed schedule. Trusts the quiescence criterion (queues empty, executor idle, state unchanged 3 s with a 0.2 s master poll).",
    design="DESIGN.md section 4 C15")

CHECKS["C16"] = dict(
    technique="enumeration of component x wrapping-factory combinations plus Hypothesis-random sweep specifications; oracle = the framework's own contract catalogue (validate_component, error level) on node and processor classes, and per-kind mirror relations between node wrapper and wrapped processor",
    text=("Generated-input search over node configurations (~290 enumerated factory paths + 1.5k random sweep nodes quick, 36k thorough): "
          "every generated node class and processor class must pass the contract catalogue without error-level diagnostics and the "
          "wrapper's input/output types and created keys must mirror the processor (sources take no data, sinks and probes pass "
          "their input type through)."),
    note="Trusts validate_component as the published catalogue; only constructible configurations are judged.",
    design="DESIGN.md section 4 C16")

CHECKS["C17"] = dict(
    technique="Hypothesis-generated YAML configurations with a planted invalidity class x CLI flag combinations x supplied/missing context keys x failing run index; oracle from the generator's own knowledge of the class (order-sensitive required keys), observed through exit code, marker/sink files and the trace directory; differential in-process vs real subprocess on a sample",
    text=("Generated-input search (4.8k CLI invocations quick, 38k thorough). Each case knows which class it is (21 invalidity classes "
          "or valid) and which flags it passes; rejected / validate / dry cases must leave no marker line, no sink file and no trace "
          "entry and exit with the documented code; executed cases must exit 0 iff every planned run completed, 4 otherwise with no "
          "run started after the failed one."),
    note="Trusts the marker components as the witness of execution and the in-process driver (cross-checked against subprocesses).",
    design="DESIGN.md section 4 C17")

CHECKS["C09"] = dict(
    technique="Hypothesis-generated (pipeline, run_space) pairs driven through the CLI; differential oracle launch-run-i vs standalone run with run i's context (sink output and normalised trace); lifecycle invariants over the launch trace; metamorphic relations on the spec ID (cosmetic rewrite => equal, plan mutation => different), launch IDs (idempotency key) and inputs ID (touch vs edit of a source file)",
    text=("Generated-input search (720 launches quick, 12.8k thorough; each with up to 4 standalone runs, a rewritten launch, a mutated "
          "plan, launch-id variants and source-file touch/edit). Plan order, per-run equality with the standalone execution, exactly one "
          "run_space_start/end with truthful planned/completed counts also on failure, launch id / attempt / 0-based index / context on "
          "every pipeline_start, spec ID equal between inspect and trace and under cosmetic rewrites but different for different plans, "
          "idempotent launch ids reproducible, inputs ID changing exactly with file content."),
    note="Trusts the C08 reference expander for the plan and the CLI in-process driver.",
    design="DESIGN.md section 4 C09")

CHECKS["C18"] = dict(
    technique="Hypothesis-generated succeeding pipelines x four ways of repeating a run; history invariant on counts (registered component classes, gc-tracked objects after gc.collect()) sampled at runs 50/150/300/450; linear-growth oracle over two consecutive windows; growing registry buckets / object types as bucket features",
    text=("Generated-input search over (pipeline, way-of-repeating) pairs (80 pairs x 450 runs quick, 1.3k pairs thorough): the number of "
          "registered component classes must be identical at every sample and gc-tracked objects must not grow linearly (< 0.5 per run "
          "in at least one of the two last windows) for a reused Pipeline, fresh Pipelines, a 451-run launch through the CLI (sampled by "
          "a probe inside the pipeline) and a queue worker thread."),
    note="Counts, never time. The queue way uses 10/30/60/90 jobs in the quick tier (0.2 s master poll per job) and 50/150/300/450 in the thorough tier.",
    design="DESIGN.md section 4 C18")

NOT_YET = {}


def main():
    props = [json.loads(l) for l in open(os.path.join(ROOT, "properties.jsonl"))]
    checks = []
    na = []
    for p in props:
        pid = p["id"]
        c = CHECKS.get(pid)
        if c is None:
            na.append({"property_id": pid, "reason": NOT_YET.get(pid, "check not built yet in this session; planned in DESIGN.md section 4")})
            continue
        checks.append({
            "property_id": pid,
            "quick_cmd": f"./vcheck {pid} --tier quick",
            "thorough_cmd": f"./vcheck {pid} --tier thorough",
            "evidence_file": f"evidence/{pid}.json",
            "replay_cmd_template": f"./vcheck {pid} --replay {{path}}",
            "engine": "vcheck",
            "level_claimed": {"category": c.get("category", "exploration"), "text": c["text"], "design_ref": c["design"]},
            "level_note": c["note"],
            "technique": c["technique"],
        })
    manifest = {
        "version": 1,
        "setup_cmd": ("/venv/bin/python -c 'import hypothesis, jsonschema' 2>/dev/null || /venv/bin/pip install --no-index "
                      "--find-links /opt/veriftools/wheels hypothesis jsonschema >/dev/null 2>&1; "
                      "PYTHONPATH=.deps /venv/bin/python -c 'import atheris' 2>/dev/null || /venv/bin/pip install --no-index "
                      "--find-links /opt/veriftools/wheels --target .deps atheris >/dev/null 2>&1; "
                      "/venv/bin/python -c 'import hypothesis, jsonschema, yaml, semantiva' && PYTHONPATH=.deps /venv/bin/python -c 'import atheris'"),
        "hooks": {
            "guard": "SEMANTIVA_VERIF",
            "enable": "no source hooks exist: all observation goes through public injection points (custom transport, "
                      "executor, registered components, trace files, CLI); vcheck exports SEMANTIVA_VERIF=1 for form only",
            "baseline_off_cmd": BASELINE_OFF,
            "source_commits": [],
            "add_only": True,
        },
        "engines": [{
            "name": "vcheck", "path": "vcheck",
            "serves_properties": [c["property_id"] for c in checks],
            "kind_free_text": "Hypothesis 6.168 strategies / state machines and itertools enumerations, one fresh interpreter per shard, "
                              "collect-then-bucket discrepancy reporting, JSON ddmin shrinker, replay files",
        }],
        "checks": checks,
        "not_applicable": na,
        "notes": "Known and fixed findings are listed in known_findings.json; committed reproducers live in corpus/<id>/.",
    }
    with open(os.path.join(ROOT, "MANIFEST.json"), "w") as fh:
        json.dump(manifest, fh, indent=1)
        fh.write("\n")
    import jsonschema

    jsonschema.validate(manifest, json.load(open("/root/.vp/MANIFEST.schema.json")))
    print("MANIFEST.json written:", len(checks), "checks,", len(na), "not_applicable")


if __name__ == "__main__":
    main()
