#!/venv/bin/python
"""Write seeded/<ID>_<C|D>/meta.json for the round-2 seeded changes from the evaluation outputs kept next to them."""
import json, os, re, sys

ROOT = os.path.dirname(os.path.dirname(os.path.abspath(__file__)))
# (what was changed, what it needs to manifest, reported by first version of the checks?, strengthening)
R2 = {
 "C01_C": ("parameter defaults memoised per module.qualname (not unique for generated slicer/sweep classes)", "two generated processors sharing a qualified name but differing in a default, default channel reached, one process", True, ""),
 "C01_D": ("rename:/delete: guard clauses treat falsy values (0, 0.0, False, '') as 'key not found'", "rename or delete of a key whose value is falsy", True, "(patch rebased onto the F25 repair, which touches the same lines; the original is kept as patch_original_3ec3f1c.diff)"),
 "C02_C": ("validator accepts next_in_type being a subclass of prev_out_type (symmetric compatibility)", "a BaseDataType-declaring pass-through node (CopyDataProbe) followed by a node whose concrete input type differs from the data that flows", True, ""),
 "C02_D": ("per-node 'deleted before this node' snapshot aliased to the live set", "a key required from the initial context that overrides a same-named default on an earlier node and is deleted by a later node", True, ""),
 "C03_C": ("probe sweeps iterate the Cartesian product in declaration order (two cooperating sites)", "combinatorial sweep on a probe with >= 2 variables declared in non-sorted order", True, ""),
 "C03_D": ("process-wide compiled-expression cache keyed by the commutative/associative signature", "two sweep expressions with equal signature but different floating-point evaluation order (re-association) in one process", False, "re-association-sensitive expression templates ((v + 0.1) + 0.2 vs v + (0.1 + 0.2), nested sums of products) and constants 0.1/0.2/0.3/0.7 in the shared grammar"),
 "C04_C": ("commutative normalisation sorts operands before normalising them", "+/* chain whose operands are themselves commutative groups written in different orders (sum of products)", False, "nested sum-of-products templates in the expression grammar; commute_expr rewrites reorder inner groups"),
 "C04_D": ("LRU cache of generated sweep classes keyed by a tuple that equates 1 with 1.0 and True", "two sweeps in one process differing only in int/float/bool type of sequence values", True, ""),
 "C05_C": ("flattening of +/* chains crosses the other commutative operator", "expression mixing + and * where an inner operator is swapped", False, "mutation operator sweep_expr_plus_times (swap an inner + and *)"),
 "C05_D": ("sequence digest computed over the head/tail sample", "explicit sequence of >= 7 values changed at an interior position", True, ""),
 "C06_C": ("parameter_sources label 'required' leaks into the error SER of an unresolvable parameter", "failure kind: unresolvable parameter, SER validated against the schema", True, ""),
 "C06_D": ("pipeline_end says ok when the run is aborted by a non-Exception BaseException", "KeyboardInterrupt-class abort inside a node", True, ""),
 "C07_C": ("data digest memoised by payload object identity", "operation mutating its payload in place and returning the same object; digest compared with content", True, "clause different_data_same_digest added as a second, direct oracle"),
 "C07_D": ("context value None taken for 'key absent' when reporting a defaulted parameter", "defaulted parameter, unset in the node, context holds the key with value None", False, "None among generated context values for defaulted parameters"),
 "C08_C": ("absent and present-but-empty conflated in by_position blocks", "by_position block with both context and source, one side with keys but zero positions", True, ""),
 "C08_D": ("max_runs pre-flight ignores source.mode inside by_position blocks", "by_position block, combinatorial source, product far above the cap", True, ""),
 "C09_C": ("runtime RSCF hash escapes non-ASCII text, inspect does not", "a non-ASCII character anywhere in the run_space block", False, "non-ASCII label values in generated run-space contexts"),
 "C09_D": ("idempotency-key launches forget the attempt number", "idempotency key together with attempt > 1", True, ""),
 "C10_C": ("strict JSON (allow_nan=False) in the JSONL driver: traced run raises where the untraced run returns", "non-finite float among traced parameters", False, "non-finite parameter variant (config or context) in C10's own generator"),
 "C10_D": ("parameter metadata memoised class-level by processor ref", "earlier run in the process used a same-named generated class with another signature; comparison with a history-free trace", False, "fresh-interpreter baseline: a tenth of the cases are re-traced in a new process (verif/props/c10_child.py) and compared record by record"),
 "C11_C": ("process-wide compile cache keyed by the expression text only", "same text compiled earlier with a covering variable set", True, ""),
 "C11_D": ("repeated ** entries of a call collide in a label->node dict; only the last is visited", "call with two or more ** unpackings, offending code in a non-last one", False, "call shapes with two ** mappings / keyword + ** in the escape constructors"),
 "C12_C": ("chains in list-valued AST fields (call arguments, comparators) keep their written order", "commuted chain as direct argument of abs/min/max or right comparator", True, ""),
 "C12_D": ("integer literals above 2**53 rounded through float", "two integer constants > 2**53 that round to the same double", False, "large integer constants (2**53+1, 2**63-1, 10**30+7 ...) in the expression generator"),
 "C13_C": ("stale 'hot node' pointer when the hot run switches", "adjacent SERs with the same node id and different run ids (interleaved runs of one launch)", True, ""),
 "C13_D": ("run verdict memoised, invalidated by top-level run_id only", "finalise, ingest more SERs of the open run, finalise again on the same aggregator", False, "tailing-aggregator clause: one aggregator fed incrementally and finalised after every prefix must agree with a fresh one"),
 "C14_C": ("publish appends outside the channel-table lock", "preemption between the lookup and the append while the subscriber drains and discards the channel", True, ""),
 "C14_D": ("pattern pre-compiled to an unanchored regex (match, not fullmatch)", "two live channels where one name extends a name matched by the other's pattern", False, "scenario prefix_related_channels (jobs.a / jobs.ab / jobs.a.cfg with patterns jobs.?, jobs.a*, jobs.*.cfg)"),
 "C15_C": ("Future registered after the job is put on the queue", "enqueuing thread held up between put and the dict store (e.g. blocked in the log call) while master and worker finish the job", False, "enqueue-stall schedule: a logger that blocks the enqueuing thread at the 'Enqueued job' line for a generated time"),
 "C15_D": ("failure with an empty message reported as success (two cooperating sites)", "failing job whose exception has an empty str()", False, "failure kinds drawn from message-less exceptions (ValueError(), bare assert) via VRaiseOp"),
 "C16_C": ("docstring normalisation raises/loses node metadata for undocumented components", "wrapped component without a docstring of its own", False, "undocumented source/probe/operation/sink/payload-source components in the enumerated library"),
 "C16_D": ("component registry keyed by qualified class name", "two live generated classes with one qualified name, older validated after the newer", True, ""),
 "C17_C": ("type mismatch hidden behind a context-only node passes validation", "mismatching data nodes separated by a rename/delete/template node", True, ""),
 "C17_D": ("a key a node rewrites in place is no longer reported as required", "node that requires and creates the same key, key not supplied", False, "invalid-configuration class create_and_require_missing"),
 "C18_C": ("adapter cache with weak keys whose value references the key", "parameter sweep on a DataSource node run through fresh Pipeline objects", True, ""),
 "C18_D": ("drained status channel discarded only when the consumer comes back", "jobs through the real master (enqueue + run_forever) in the worker's interpreter", True, ""),
}

R3 = {
 "C01_E": ("process-wide defaults memo keyed by module.__name__ of generated sweep classes", "two different sweeps over one element in one process, the second leaving a defaulted parameter un-swept, memo filled first by the other shape", True, ""),
 "C01_F": ("probe node skips the context write when the probe result is falsy", "probe result exactly 0.0 / -0.0 / [] / {} / False / None", True, ""),
 "C02_E": ("probe context_key registered in the key-origin table before the node's own parameters are classified", "sweep probe with a from_context variable whose key equals the node's own context_key", True, ""),
 "C02_F": ("run-time resolution treats a None configuration value as unset (inspection still says 'configuration')", "node parameter explicitly configured as None", False, "the traceback-proven class of a real failure (resolve_runtime_value => UNRESOLVED, type gate => TYPE) now decides a flow failure even when the reference predicts success; before, a disagreement with the reference was only counted as a guard label"),
 "C03_E": ("per-class sequence cache also caches from_context variables", "same Pipeline object run twice with another context sequence", True, ""),
 "C03_F": ("sweep variables leak into non-computed parameters of the same name", "sweep variable named like a parameter of the wrapped processor that no expression computes", False, "sweep variable names are now also drawn from the wrapped processor's parameter names"),
 "C04_E": ("rename:/delete: classes memoised by generated class name ('.' and '_' collide, a_to_b:c vs a:b_to_c)", "a configuration with a colliding sibling handled earlier in the same interpreter", False, "name-collision twins (separator toggled; _to_ moved) observed next to a third of the configurations, opposite orders in the process variants"),
 "C04_F": ("commutative normalisation no longer descends into list-valued AST fields", "+/* chain inside call arguments, comparators, boolean operands or tuples, operands reordered", False, "expression templates with chains inside max/min/abs arguments, comparisons and conditional branches"),
 "C05_E": ("sequence digest computed over a sorted copy", ">= 8 explicit values, middle positions permuted", False, "mutation operators sequence_swap_adjacent (every position) and sequence_reversed"),
 "C05_F": ("leading/trailing whitespace stripped from string parameters before hashing", "string parameter values differing only in edge whitespace", False, "fine-grained value mutations: trailing/leading space, trailing newline, case, one ulp, sign, list order/length, dict key"),
 "C06_E": ("JSONL driver writes ensure_ascii=False", "lone surrogate in a traced parameter / context value", True, "(reported through the odd-value table added for F29)"),
 "C06_F": ("construction-time cleanup only for Exception", "KeyboardInterrupt-class abort raised by a processor constructor while nodes are instantiated", False, "fault kinds init_keyboard / init_abort / init_value: a component whose constructor raises a pre-built exception, armed for one process() call"),
 "C07_E": ("data digest memoised by object identity", "in-place mutating operation", True, ""),
 "C07_F": ("context delta compares truncated repr tokens", "detail repr without hash, value whose repr exceeds 200 characters changed only beyond that", False, "component VLongTailOp and long initial context values (81-element lists differing in the last element); detail level repr,context"),
 "C08_E": ("relative source path resolved against the process working directory when it exists there", "relative path, cwd= different from the process cwd, same-named file in the process cwd", False, "decoy files with other content under the same relative names in the process working directory for half of the cases"),
 "C08_F": ("max_runs pre-flight sizes a by_position block's source with the block mode", "by_position block, combinatorial source, product far above the cap", True, ""),
 "C09_E": ("inputs ID hashes only the first MiB of a source file", "source file > 1 MiB edited beyond the first MiB with its size kept", False, "large-file clause: > 1 MiB of trailing blank lines, last two bytes rewritten in place, inputs ID must change"),
 "C09_F": ("runtime spec-ID hashing NFC-normalises strings, inspect does not", "decomposed / compatibility Unicode in the run_space block", False, "label values contain e+U+0301, U+212B and a CJK compatibility ideograph"),
 "C10_E": ("JSONL driver writes ensure_ascii=False (traced run raises UnicodeEncodeError)", "lone surrogate reaching the trace", True, "(odd-value table)"),
 "C10_F": ("required-keys memo keyed by (node type, processor fqcn, parameter names)", "colliding factory-generated definition ran earlier in the process", True, "(fresh-interpreter baseline)"),
 "C11_E": ("third and later operands of and/or never validated", "payload at operand index >= 2 of one flattened boolean chain", False, "family 'wide': every list-valued AST field with 3..5 entries and the interesting child at every index"),
 "C11_F": ("per-evaluator compile cache ignores the variable set", "same evaluator, same text, covering set first", True, ""),
 "C12_E": ("list-valued AST fields (Compare.ops / comparators, Call.args) sorted", "chained comparison with operators / comparators not in dump order", False, "chained comparisons as an expression kind (enumerated over three leaves, random, fuzz) with swap and operator-swap mutations"),
 "C12_F": ("chain sort key case-folded", "two variable names differing only by case in one chain", False, "third variable named X in half of the random / fuzz shards"),
 "C13_E": ("launch lookup memo ignores the attempt", "two attempts of one launch id in one aggregator", False, "retried launches: the CLI launch is run twice under one launch id (attempt 1, 2) and aggregated together"),
 "C13_F": ("pipeline_start dropped when start_timestamp was already set by an early finalise", "SER before its pipeline_start with a finalise in between", False, "one long-lived aggregator finalised after every record is also fed the drawn permutations / interleavings / subsets"),
 "C14_E": ("subscription takes a channel's whole backlog at once", "consumer leaving after one message while >= 2 are queued on the channel", False, "consumers that take k messages and close; scenario early_break_consumer; remaining messages must still be deliverable"),
 "C14_F": ("exact-name fast path treats patterns without * or ? as literal", "fnmatch character class pattern", False, "patterns jobs.[ab], jobs.[!a], [jo]* and a channel literally named jobs.[ab]; sequential epilogue: an exhaustive subscription per pattern must leave nothing matching for '*'"),
 "C15_E": ("Future registered after the job is put on the queue", "enqueuing thread stalled between put and registration", True, ""),
 "C15_F": ("lru_cache of loaded YAML pipelines keyed by path", "same YAML path reused after the file was rewritten", False, "yaml_reuse schedule: one path is rewritten for the next job once the earlier job using it is done"),
 "C16_E": ("probe node created keys no longer de-duplicated", "swept probe whose context_key equals one of its <var>_values keys", False, "context_key drawn from the sweep's own <var>_values keys; enumerated path sweep_probe_key_is_values_key"),
 "C16_F": ("IO node dispatch tests sinks before sources (adapter factory still sources first)", "IO component inheriting a source base and a sink base", False, "dual-role components VDualStore / VDualPayloadStore in the enumerated library"),
 "C17_E": ("--run-space-max-runs overwrites run_space.dry_run from the YAML", "dry_run in YAML + cap flag", True, ""),
 "C17_F": ("cross-block duplicate key check runs before source keys are known", "later block brings the duplicate key through a source file", False, "invalidity classes rs_duplicate_via_source / rs_duplicate_via_source_first (C08 reports the same patch as invalid_spec_accepted)"),
 "C18_E": ("adapter cache with weak keys whose values reference the key", "sweep on a DataSource with fresh Pipelines / queue", True, ""),
 "C18_F": ("master never forgets the Future of a failed job", "queue way, jobs that fail at run time", False, "a third of the reuse / fresh / queue cases now use a pipeline whose every run raises (fresh exception object each time)"),
}

R4 = {
 "C01_G": ("a context key holding None loses to the processor default (default consulted one step too early)", "parameter not in the node config, context holds the key with value None, processor declares a default", True, ""),
 "C01_H": ("by_position + broadcast recycles non-longest sequences with period min_len", "three or more variables with three or more distinct sequence lengths, expression using the middle one", False, "rich sweep specifications (up to three variables, lengths 1..5) are now used by C01 as well"),
 "C02_G": ("'requires a previously deleted key' check reads the live deleted set after the node's own created keys were removed from it", "a key is deleted (or renamed away) and a later node both requires and re-creates it", False, "explicit hazard pair in the generator: delete:K / rename:K:c followed by template:\"{K}_x\":K or rename:K:K"),
 "C02_H": ("canonical spec drops node parameters whose value is None (inspection keeps them)", "node parameter explicitly configured as null", True, ""),
 "C03_G": ("per-sweep memo of expression results keyed by the variable values (1 == 1.0 == True)", "one sequence mixing hash-equal values of different type or sign, type-sensitive expression result", False, "sequences drawn from {1, 1.0, True, 0, 0.0, False, -0.0, 2, 2.0, 3.0, +-inf}"),
 "C03_H": ("sequence digest uses allow_nan=False: inf/nan sweep values make the run raise", "explicit sequence containing a non-finite float, pipeline actually run", False, "(same generator change: non-finite floats in explicit sequences)"),
 "C04_G": ("lru_cache on the sequence digest keyed by the value tuple (1 == 1.0)", "an ==-equal, differently typed sequence was seen earlier in the process", True, "(patch rebased onto the F30 repair; original kept)"),
 "C04_H": ("YAML loader drops node keys whose value is null; inspect reads the raw mapping", "a node with a value-less `parameters:`; run through the loader vs inspection of the mapping", False, "`parameters: null` on parameter-less nodes in a third of the configurations; fifth observation path: Pipeline built from load_pipeline_from_yaml"),
 "C05_G": ("operands of ==/!= chains sorted (a == b != c vs a == c != b share a signature)", "chained comparison with three operands, not all ==, operands permuted", False, "AST-level semantic mutation operators: operands of non-commutative operators and of chained comparisons, chain operators, conditional branches, min/max; expression templates with such shapes"),
 "C05_H": ("sweep classes memoised by a tuple key that equates 1, 1.0 and True", "the other configuration was preprocessed earlier and its class is alive", False, "mutation operator sequence_retyped (same numbers, other YAML type)"),
 "C06_G": ("directory mode decided by the path suffix only", "existing trace directory whose name contains a dot", False, "output mode dir_dotted (an existing directory named traces.v1.2) in C06 and C10"),
 "C06_H": ("InvalidNodeParameterError renders its message lazily; str() raises for non-string names inside the construction handler", "unknown parameter whose name is not a string (YAML `on:` / `0:`)", False, "fault kind unknown_param_nonstring"),
 "C07_G": ("output data summary copied from the input summary when the same object is returned", "in-place mutating operation", True, ""),
 "C07_H": ("node-level None parameters dropped from the processor config; SER still reports them", "data node with a parameter explicitly None that has a default or is in the context", True, ""),
 "C08_G": ("max_runs pre-flight gives up for by_position block + combinatorial source", "product far above the cap in that combination", True, ""),
 "C08_H": ("loaded sources cached by path: a second block reading the same file gets the first block's select/rename", "two blocks whose sources name the same file", False, "later blocks may re-read an earlier block's file, half of the time in a way that keeps the spec valid"),
 "C09_G": ("inspect computes the spec id through the runtime service, which resolves relative source paths against the cwd", "source block with a relative path, inspect run from another directory", False, "the configuration is also inspected from its parent directory"),
 "C09_H": ("per-class sequence cache also caches from_context variables; a launch reuses one Pipeline", "from_context sweep whose list differs per run of the launch", False, "pipeline element sweep_ctx: from_context sweep fed by a per-run list from the run space"),
 "C10_G": ("error text helper reads exc.args[0] of a KeyError", "bare `raise KeyError` inside a traced node", False, "pre-built exceptions with empty / tuple / two-element args, OSError(), SystemExit in C10 and C06"),
 "C10_H": ("single-slot memo of the pipeline semantic id keyed without the sweep metadata", "same-shaped different sweep traced immediately before", True, ""),
 "C11_G": ("allowed_funcs of one evaluator are merged into the class-level whitelist", "an earlier evaluator in the process was built with allowed_funcs", False, "every shard first builds an evaluator with allowed_funcs={len, pow, sqrt, sum}; escape corpus gained calls of those names"),
 "C11_H": ("from_context keys added to the allowed names of sweep expressions", "from_context variable whose key differs from its name, expression mentioning the key", False, "YAML-path clause for from_context key names (and the YAML path itself, which had been vacuous, now builds pipelines)"),
 "C12_G": ("integer constants converted to float before hashing", "two integer constants above 2**53 that round to one double", True, ""),
 "C12_H": ("parameters_sig pairs sorted names with signatures in declaration order", "two swept parameters declared in non-alphabetical order, observed through the inspection payload", False, "payload clause: parameters_sig of a two-parameter sweep must carry each parameter's own signature, both declaration orders"),
 "C13_G": ("ingest_many peeks at the first record of a one-shot iterable and drops it", "records handed over as a generator", False, "every third prefix is also ingested as a generator, as an iterator and record by record; all routes must agree"),
 "C13_H": ("idempotency-key launches lose the attempt number", "idempotency key with attempt 2", False, "retried launches also by idempotency key; the full trace must show attempts [1, 2] (expectation from what was launched, not from the records)"),
 "C14_G": ("subscription returns after close() even when a message was already popped", "close() from another thread between the loop-head test and the pop", False, "scenario close_from_other_thread and generated closer threads"),
 "C14_H": ("single-* fast path: startswith(prefix) and endswith(suffix) without a length guard", "pattern jobs.*.cfg and a channel jobs.cfg", False, "channel jobs.cfg; scenario star_pattern_overlap"),
 "C15_G": ("Future registered after the job is queued", "enqueue stalled between put and registration", True, ""),
 "C15_H": ("orchestrator caches instantiated nodes per resolved spec object", "one Pipeline object enqueued for several jobs that overlap on different workers", False, "shared_pipeline: jobs of one payload kind are handed one and the same Pipeline object (every other burst does so for all 40 jobs)"),
 "C16_G": ("node metadata reports data types by __qualname__", "component whose data type is a nested class", False, "components over a nested data type (VLab.Reading) in the enumerated library"),
 "C16_H": ("strict-JSON digest: a non-finite sweep value makes the generated class's metadata raise", "explicit sweep sequence with inf / nan", False, "(generator change of C03: non-finite values in explicit sequences)"),
 "C17_G": ("CLI run-space options merged with update(): dry_run False overwrites the YAML's true", "dry_run in YAML + --run-space-max-runs", True, ""),
 "C17_H": ("max_runs: 0 read as 'use the default'", "cap of exactly 0 with at least one planned run", False, "caps of 0 in the YAML and on the command line"),
 "C18_G": ("module-level dict of semantic ids keyed by sweep class (strong references)", "traced run, sweep node, fresh Pipelines", True, "(first version caught it; after the generator changes of this wave it was missed once in 80 cases, so half of the C18 cases are now made to contain a sweep and the way of repeating is a hash of the case, not a late draw)"),
 "C18_H": ("master polls per-Future status channels; jobs without a Future leave their status in the transport", "queue way, jobs enqueued without a Future", False, "fire-and-forget jobs between the sample points (which act as barriers)"),
}

R5 = {
 "C01_I": ("rename/delete/template classes cached by generated class name ('.' and '_' collide)", "two specs whose keys are equal after sanitisation resolved in one process", False, "context keys x.y and x_y in the key pool"),
 "C01_J": ("evaluation namespace merges whitelisted functions over the variables", "sweep variable named like a whitelisted function (max, abs, float)", False, "sweep variable names drawn from the whitelisted function names as well"),
 "C02_I": ("probe context_key registered before the node's own parameters are classified", "sweep probe whose from_context key equals its context_key", True, ""),
 "C02_J": ("rename treats a source value of None as absent", "rename of a key holding None plus a later consumer of the destination", True, ""),
 "C03_I": ("per-expression result cache keyed by variable values (1 == 1.0 == True), kept across runs", "type-sensitive expression, equal-but-differently-typed values", True, ""),
 "C03_J": ("sweep wrapper drops non-swept parameters supplied as None", "sweep node with a non-swept parameter explicitly None and a non-None default", True, ""),
 "C04_I": ("sequence-signature memo (>= 32 values) keyed by the value tuple", "long explicit sequence and an ==-equal differently typed one earlier in the process", False, "every C04 shard contains 32- and 40-value integral sequences with their retyped twins; generator draws 32/40/65-value sequences"),
 "C04_J": ("YAML 1.2 float resolver only in load_pipeline_from_yaml", "plain scalar like 1e3 (string for YAML 1.1)", False, "string values 1e3 / 2.5e6 / .5e2 in nested parameters; observed through the loader path added in round 4"),
 "C05_I": ("fallback digest of non-JSON sequences uses repr(np.asarray(values)), abbreviated above 1000 elements", "> 1000 numpy values changed in the middle", False, "special clause: numpy integer sequences of 40 / 1000 / 1001 / 1201 values mutated at edge and interior positions"),
 "C05_J": ("sweep class LRU keyed by the element's __name__", "two different classes with one __name__ as wrapped processor", False, "special clause: VNsA.Scale vs VNsB.Scale as class-valued processors"),
 "C06_I": ("JSONL driver ensure_ascii=False", "lone surrogate in a record", True, ""),
 "C06_J": ("environment pins gain a boolean git_dirty when SEMANTIVA_GIT_REV contains -dirty", "that environment variable", False, "C06 shards run under three settings of SEMANTIVA_GIT_REV"),
 "C07_I": ("parameter source reported as default when the context value is the default object", "context value identical with the declared default (small ints, None, True, short strings)", False, "component VDefaultsProbe (int / str / bool defaults) and context values equal to the defaults"),
 "C07_J": ("context delta compares truncated reprs at repr-only detail", "long values changed beyond 200 characters", True, ""),
 "C08_I": ("max_runs pre-flight only for combine: combinatorial", "combine: by_position with an oversized single block", False, "promptness shapes are run under both combine modes"),
 "C08_J": ("--run-space-max-runs tested by truthiness", "cap of 0 given on the command line", False, "the CLI clause passes the cap as a flag for half of its cases (patch rebased onto F31; original kept)"),
 "C09_I": ("context summary reused when the new view == the previous one", "consecutive runs whose contexts are equal but differently typed, no context-writing node", False, "eq_typed launches: values [1, 1.0, True, 3], no per-run index, fixed sink path"),
 "C09_J": ("expansion prunes rename entries of unselected columns in place before the CLI hashes the spec", "source with select and a rename entry outside the selection", False, "csv_select_rename sources"),
 "C10_I": ("preprocessing provenance memoised per node id, refreshed only when the semantic id changes", "history T, Z (other semantic id), X (same id, other spelling), T", False, "a spelling twin (operands of + / * exchanged) after the semantic twin in the history"),
 "C10_J": ("node uuid JSON uses default=str: non-JSON parameter values survive construction, the traced path still dumps strictly", "node parameter outside the JSON types", False, "odd_config: the unusual value sits in the node configuration"),
 "C11_I": ("only the last ** argument of a call is validated", "two ** mappings, offender not last", True, ""),
 "C11_J": ("configuration-path evaluator memo with reversed subset test", "same text accepted earlier for a node declaring a superset of names", False, "YAML-path history clause (superset first, then subset)"),
 "C12_I": ("descending comparison chains mirrored without reversing the operator list", "chain mixing > and >=", False, "enumerated operator pairs (>,>=), (>=,>), (<,<=), (<=,<)"),
 "C12_J": ("payload resolves processor classes once per reference string", "two sweep nodes over one processor with different expressions", False, "payload clause with two sweep nodes over the same processor"),
 "C13_I": ("launch verdict cached once complete, not invalidated when another run attaches", "finalise between the run-space edges and a later pipeline_start", True, ""),
 "C13_J": ("launch id sanitised for file names also inside run_space_start / end records", "launch id with characters outside [A-Za-z0-9._-]", False, "explicit launch ids with spaces, colons, slashes"),
 "C14_I": ("drained channels swept only above 32 channels, publish to an existing channel without the table lock", "> 32 channels, publisher preempted between lookup and append", False, "scenario many_channels_existing (35 channels, preemption bound 1, capped)"),
 "C14_J": ("literal fast path for patterns without * or ?", "character-class pattern", True, ""),
 "C15_I": ("one failure-report context per worker", "two failing jobs reported by one worker before the master takes the first", False, "fail_also: a second failing job in the batch"),
 "C15_J": ("ContextType.__str__ calls len() on values that have __len__", "job context holding a 0-d numpy array or a class object", False, "odd values in job contexts (table extended by a 0-d array and a class object)"),
 "C16_I": ("IO adapter drops created keys the source also requires", "sweep of a source with t: from_context t_values", False, "variable shape ctx_key_is_own_values_key; created keys of non-probe nodes must EQUAL the processor's"),
 "C16_J": ("default extraction compares with == (element-wise for arrays)", "parameter default that is a numpy array with >= 2 elements", False, "components VArrayDefaultOp / VArrayDefaultProbe, plain, sliced and swept"),
 "C17_I": ("required-key bookkeeping after the node's own created keys", "node that requires and creates one key, key missing", True, ""),
 "C17_J": ("nested pipeline.run_space keys win over the top-level block the CLI writes its options into", "nested block spelling out dry_run / max_runs plus the CLI flags", False, "run space under pipeline: (with explicit defaults) as a generated position; found F31 on the way"),
 "C18_I": ("adapter cache with self-referencing values", "sweep on a DataSource, fresh Pipelines / queue", True, ""),
 "C18_J": ("lru_cache on the parameter-default helper keyed by generated classes", "per-run generated class with a defaulted parameter", True, ""),
}

R6 = {
 "C03_K": ("combinatorial product ordered by a natural-sort key of the variable names", "two variable names whose digit runs differ in length (t9 / t10)", False, "variable names t10 / t9 in multi-variable sweeps"),
 "C03_L": ("variable-free expressions folded into an optional external default", "constant expression for a parameter that is also supplied in the node parameters or the context", False, "constant expressions (5.0, min(5.0, 7.0)) and computed parameters that are also given in the node parameters"),
 "C04_K": ("required context keys sorted with key=str.casefold", "two required keys equal ignoring case, observed under different hash seeds", False, "fixed member of every C04 shard: renames of K1/k1, Out/out, Seq/seq, A/a"),
 "C04_L": ("commutative normalisation skips keyword-argument values", "+/* chain inside a keyword argument (round(x, ndigits=p + q))", False, "fixed expression round(t * s, ndigits=int(1.0 + t + s)) with four commuting rewrites"),
 "C05_K": ("and / or operands sorted in the expression signature", "sweep expression using and / or, operands exchanged", False, "AST mutation swap_boolean_operands; templates with and / or"),
 "C05_L": ("node factory pops context-processor parameters from the caller's node dict before the uuid is hashed", "ModelFittingContextProcessor node, mutation of independent_var_key / dependent_var_key / context_key", False, "special clause: model-fitting parameter mutations"),
 "C08_K": ("max_runs == 0 treated as 'no cap' by the pre-flight", "cap of exactly 0 and an oversized block", True, ""),
 "C08_L": ("--run-space-file merged key by key into the pipeline's own run_space", "pipeline file with its own non-default run_space plus an override file that omits those keys", False, "CLI clause variant: plan from --run-space-file while the pipeline file carries a decoy run_space"),
 "C09_K": ("file digest loop stops after the first MiB (off by one)", "source file > 1 MiB edited beyond it, same size", True, ""),
 "C09_L": ("rename entries of unselected columns pruned in place before the spec is hashed", "select plus rename outside the selection", True, ""),
 "C10_K": ("error text helper indexes KeyError.args[0]", "bare raise KeyError in a traced node", True, ""),
 "C10_L": ("module:Class reference registers the whole module", "short-name node followed by a module:Class node whose module defines that short name too", False, "module verif/lib/shadow.py (its own FloatSquareOperation cubes) referenced as verif.lib.shadow:VShadowOnly after a FloatSquareOperation node"),
 "C13_K": ("start >= end counted as contradictory bounds", "pipeline_start and pipeline_end with equal timestamps (runs failing at instantiation)", True, "(single runs that fail at instantiation were added as a generated kind all the same)"),
 "C13_L": ("launch roll-up matches runs by launch id only", "two attempts of one launch id aggregated together", True, ""),
 "C14_K": ("drained channel discarded without checking that the deque is still the registered one", "two subscribers of one channel, three messages, a re-created channel", False, "scenario two_subs_one_channel_three_messages"),
 "C14_L": ("glob helper for pure-* patterns lets head and tail overlap", "pattern jobs.*.status and channel jobs.status", True, ""),
 "C16_K": ("IO node kind chosen by MRO order, adapter still source-first", "component written class Store(DataSink, DataSource)", False, "component VDualStoreSinkFirst"),
 "C16_L": ("strict-JSON digest raises for non-finite sweep values inside generated metadata", "explicit sequence with inf / nan", True, ""),
}

ALL = {}
for k, v in R2.items():
    ALL[k] = v + (2,)
for k, v in R3.items():
    ALL[k] = v + (3,)
for k, v in R4.items():
    ALL[k] = v + (4,)
for k, v in R5.items():
    ALL[k] = v + (5,)
for k, v in R6.items():
    ALL[k] = v + (6,)

for name, (what, needs, first, strengthening, rnd) in sorted(ALL.items()):
    d = os.path.join(ROOT, "seeded", name)
    if not os.path.isdir(d):
        print("missing", name); continue
    prop = name.split("_")[0]
    rd = lambda f: open(os.path.join(d, f)).read() if os.path.exists(os.path.join(d, f)) else ""
    chk = rd("check_quick.txt")
    buckets = sorted(set(re.findall(r"check=([A-Za-z0-9_:.\-]+)", chk)))
    summ = [l for l in chk.splitlines() if l.startswith(prop + " quick")]
    suite = [l for l in rd("suite_patched.txt").splitlines() if " passed" in l]
    dp, dq = rd("demo_pristine.txt"), rd("demo_patched.txt")
    meta = {
        "change": name, "property": prop, "round": rnd, "what_changed": what, "needs_to_manifest": needs,
        "origin": "written by a sub-agent that saw only the property text and its own scratch worktree of /repo HEAD (with the fix: commits)",
        "confirmed_by_me": {
            "existing_suite_with_patch": suite[-1].strip("= ") if suite else "see suite_patched.txt",
            "how": f"tools/eval_seed{rnd}.sh: git apply in the scratch worktree /tmp/seed{rnd}_<id>, demo on pristine and patched tree (outputs kept), full pinned suite with the patch, then VERIF_REPO=<worktree> ./vcheck <id> --tier quick",
        },
        "caught_by": {"check": prop, "tier": "quick", "buckets": buckets, "summary": summ[-1] if summ else ""},
        "reported_by_first_version": first, "needed_strengthening": (not first), "strengthening": strengthening,
    }
    json.dump(meta, open(os.path.join(d, "meta.json"), "w"), indent=1)
    print(name, "buckets=%d" % len(buckets), "violations" if "VIOLATION" in chk else "NOT CAUGHT", "|", meta["confirmed_by_me"]["existing_suite_with_patch"])
