#!/bin/sh
# tools/eval_seed2.sh C07 A C : evaluate round-6 seed /tmp/seed6_<id>/_seed/<V> and keep it as seeded/<id>_<NAME>
ID=$1; V=$2; NAME=$3; TIER=${4:-quick}
WT=/tmp/seed6_$ID; S=$WT/_seed/$V; OUT=/verif/seeded/${ID}_$NAME
[ -f "$S/patch.diff" ] || { echo "no patch $S"; exit 2; }
mkdir -p "$OUT"; cp "$S/patch.diff" "$S/demo.py" "$OUT/" 2>/dev/null; cp "$S/README.md" "$OUT/agent_README.md" 2>/dev/null
cd "$WT" || exit 2
git checkout -q -- semantiva; git clean -fdq semantiva
PYTHONPATH=$WT /venv/bin/python _seed/$V/demo.py >"$OUT/demo_pristine.txt" 2>&1; DP=$?
git apply "$S/patch.diff" || { echo "patch does not apply"; exit 2; }
PYTHONPATH=$WT /venv/bin/python _seed/$V/demo.py >"$OUT/demo_patched.txt" 2>&1; DQ=$?
if [ "$5" != "nosuite" ]; then
  PYTHONPATH=$WT /venv/bin/python -m pytest -q -p no:cacheprovider --timeout=900 -x tests --deselect tests/test_export_ontology.py::test_export_framework_ontology_script >"$OUT/suite_patched.txt" 2>&1; SU=$?
else SU=skipped; fi
rm -f output.txt output_float.txt
cd /verif
VERIF_REPO=$WT PYTHONPATH=$WT ./vcheck $ID --tier $TIER >"$OUT/check_$TIER.txt" 2>&1; CK=$?
git -C "$WT" checkout -q -- semantiva; git -C "$WT" clean -fdq semantiva
echo "$ID $NAME demo_pristine=$DP demo_patched=$DQ suite=$SU check_$TIER=$CK $(grep -c VIOLATION $OUT/check_$TIER.txt) violations; $(tail -1 $OUT/suite_patched.txt 2>/dev/null)"
