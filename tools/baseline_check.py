#!/venv/bin/python
"""Run the repository's pinned suite and compare with /root/.vp/BASELINE.json stable_pass."""
import json, subprocess, sys, tempfile, os, xml.etree.ElementTree as ET
base = json.load(open("/root/.vp/BASELINE.json"))
with tempfile.TemporaryDirectory() as d:
    x = os.path.join(d, "j.xml")
    cmd = base["cmd"].replace("<file>", x)
    env = dict(os.environ); env.pop("SEMANTIVA_VERIF", None)
    subprocess.run(cmd, shell=True, env=env, stdout=subprocess.DEVNULL, stderr=subprocess.DEVNULL)
    root = ET.parse(x).getroot()
passed = set()
for tc in root.iter("testcase"):
    if not any(c.tag in ("failure", "error", "skipped") for c in tc):
        passed.add(f"{tc.get('classname')}::{tc.get('name')}")
missing = [t for t in base["stable_pass"] if t not in passed]
print(f"stable_pass={len(base['stable_pass'])} passed_now={len(passed)} missing={len(missing)}")
for t in missing[:20]:
    print("  MISSING", t)
sys.exit(1 if missing else 0)
