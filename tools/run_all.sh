#!/bin/sh
# usage: tools/run_all.sh [tier] [seed]  — runs every registered check, prints one line per check
cd "$(dirname "$0")/.." || exit 2
TIER=${1:-quick}; SEED=${2:-1}
for id in $(jq -r '.checks[].property_id' MANIFEST.json); do
  start=$(date +%s)
  out=$(VERIF_SEED=$SEED ./vcheck $id --tier $TIER 2>&1); rc=$?
  end=$(date +%s)
  echo "$id rc=$rc $((end-start))s $(echo "$out" | grep -E "^$id $TIER" | tail -1)"
  echo "$out" | grep -E "VIOLATION|HARNESS-ERROR|KNOWN-FINDING" | head -5
done
