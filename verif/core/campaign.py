"""Drive a Hypothesis campaign inside a shard (DESIGN A.2)."""
from __future__ import annotations

from typing import Any, Callable

import hypothesis
from hypothesis import HealthCheck, Phase, given, settings


def run_campaign(strategy, fn: Callable[[Any], None], n: int, seed: int) -> None:
    """Call ``fn(case)`` for ``n`` generated cases. ``fn`` never raises for a discrepancy (it collects);
    exceptions from the harness itself propagate and become exit 2."""

    @hypothesis.seed(seed)
    @settings(max_examples=n, database=None, deadline=None, derandomize=False, report_multiple_bugs=False,
              phases=[Phase.generate],
              suppress_health_check=[HealthCheck.too_slow, HealthCheck.data_too_large, HealthCheck.large_base_example])
    @given(strategy)
    def _campaign(case):
        fn(case)

    _campaign()


def run_machine(machine_cls, n: int, steps: int, seed: int) -> None:
    from hypothesis.stateful import run_state_machine_as_test

    run_state_machine_as_test(
        hypothesis.seed(seed)(machine_cls),
        settings=settings(max_examples=n, stateful_step_count=steps, database=None, deadline=None,
                          derandomize=False, report_multiple_bugs=False, phases=[Phase.generate],
                          suppress_health_check=list(HealthCheck)),
    )
