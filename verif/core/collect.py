"""Per-shard collector: counts cases, labels, non-trivial hashes, samples and discrepancies.

A property's oracle never raises for a discrepancy; it calls ``Collector.add`` so that every
clause is evaluated independently and one defect cannot hide another (DESIGN 2.3).
"""
from __future__ import annotations

import hashlib
import json
from collections import Counter
from typing import Any, Dict, Iterable, List, Optional


def canon(obj: Any) -> str:
    return json.dumps(obj, sort_keys=True, separators=(",", ":"), default=repr)


def short_hash(obj: Any) -> str:
    return hashlib.sha256(canon(obj).encode("utf-8")).hexdigest()[:16]


def bucket_key(check: str, features: Dict[str, Any]) -> str:
    return check + "|" + canon(features)


class Collector:
    def __init__(self, max_samples: int = 6, per_label_samples: int = 1, max_hashes: int = 400000,
                 hash_len: int = 16):
        self.hash_len = hash_len
        self.evaluations = 0
        self.labels: Counter = Counter()
        self.nontrivial: set = set()
        self.nontrivial_bulk = 0  # distinct by construction (enumerations)
        self.samples: List[Any] = []
        self._sampled_labels: set = set()
        self.max_samples = max_samples
        self.per_label_samples = per_label_samples
        self.max_hashes = max_hashes
        self.buckets: Dict[str, Dict[str, Any]] = {}
        self.excluded = 0
        self.inconclusive = 0
        self.extra: Dict[str, Any] = {}

    # -- counting -----------------------------------------------------------------------
    def count(self, case: Any, labels: Iterable[str] = (), nontrivial: bool = False,
              sample: Optional[Any] = None, key: Optional[Any] = None) -> None:
        self.evaluations += 1
        labels = list(labels)
        for lab in labels:
            self.labels[lab] += 1
        if nontrivial:
            self.labels["nontrivial"] += 1
            if len(self.nontrivial) < self.max_hashes:
                self.nontrivial.add(short_hash(case if key is None else key)[:self.hash_len])
        shown = case if sample is None else sample
        new_label = [lab for lab in labels if lab not in self._sampled_labels]
        if len(self.samples) < self.max_samples and (nontrivial or not self.samples):
            self.samples.append(shown)
            self._sampled_labels.update(labels)
        elif new_label and len(self.samples) < self.max_samples + 24:
            self.samples.append(shown)
            self._sampled_labels.update(labels)

    def count_bulk(self, evaluations: int, nontrivial_distinct: int, labels: Optional[Dict[str, int]] = None) -> None:
        """For enumerations whose members are distinct by construction."""
        self.evaluations += evaluations
        self.nontrivial_bulk += nontrivial_distinct
        self.labels["nontrivial"] += nontrivial_distinct
        for k, v in (labels or {}).items():
            self.labels[k] += v

    def add_sample(self, sample: Any) -> None:
        if len(self.samples) < self.max_samples + 24:
            self.samples.append(sample)

    def exclude(self, n: int = 1, why: str = "excluded") -> None:
        self.excluded += n
        self.labels["excluded:" + why] += n

    # -- discrepancies ------------------------------------------------------------------
    def add(self, check: str, features: Dict[str, Any], case: Any,
            observed: Any = None, expected: Any = None) -> None:
        key = bucket_key(check, features)
        size = len(canon(case))
        b = self.buckets.get(key)
        if b is None:
            self.buckets[key] = {"check": check, "features": features, "count": 1, "case": case,
                                 "size": size, "observed": observed, "expected": expected}
        else:
            b["count"] += 1
            if size < b["size"]:
                b.update(case=case, size=size, observed=observed, expected=expected)

    # -- result -------------------------------------------------------------------------
    def result(self) -> Dict[str, Any]:
        return {
            "evaluations": self.evaluations,
            "labels": dict(self.labels),
            "nontrivial_hashes": sorted(self.nontrivial),
            "nontrivial_bulk": self.nontrivial_bulk,
            "samples": self.samples,
            "buckets": list(self.buckets.values()),
            "excluded": self.excluded,
            "inconclusive": self.inconclusive,
            "extra": self.extra,
        }


def merge(results: List[Dict[str, Any]]) -> Dict[str, Any]:
    out = {"evaluations": 0, "labels": Counter(), "nontrivial": set(), "nontrivial_bulk": 0,
           "samples": [], "buckets": {}, "excluded": 0, "inconclusive": 0, "extra": {}}
    seen_sample = set()
    for r in results:
        out["evaluations"] += r["evaluations"]
        out["labels"].update(r["labels"])
        out["nontrivial"].update(r["nontrivial_hashes"])
        out["nontrivial_bulk"] += r.get("nontrivial_bulk", 0)
        out["excluded"] += r["excluded"]
        out["inconclusive"] += r.get("inconclusive", 0)
        for s in r["samples"]:
            h = short_hash(s)
            if h not in seen_sample:
                seen_sample.add(h)
                out["samples"].append(s)
        for k, v in r.get("extra", {}).items():
            if isinstance(v, (int, float)) and not isinstance(v, bool):
                out["extra"][k] = out["extra"].get(k, 0) + v
            elif isinstance(v, list):
                out["extra"].setdefault(k, []).extend(v)
            else:
                out["extra"][k] = v
        for b in r["buckets"]:
            key = bucket_key(b["check"], b["features"])
            cur = out["buckets"].get(key)
            if cur is None:
                out["buckets"][key] = dict(b)
            else:
                cur["count"] += b["count"]
                if b["size"] < cur["size"]:
                    cur.update(case=b["case"], size=b["size"], observed=b["observed"], expected=b["expected"])
    return out
