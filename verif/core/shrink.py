"""Deterministic ddmin-style shrinker for JSON cases (DESIGN A.4).

A candidate is accepted only if ``mod.replay(candidate)`` reports a discrepancy in the *same
bucket* (same check, same features). Candidates for which the module's ``valid(case)`` is False
(generator precondition no longer holds) or whose replay raises are skipped.
"""
from __future__ import annotations

import copy
from typing import Any, Dict, Iterator, List

from .collect import canon


def _paths(obj: Any, prefix=()) -> Iterator[tuple]:
    if isinstance(obj, dict):
        for k in list(obj):
            yield prefix + (k,)
            yield from _paths(obj[k], prefix + (k,))
    elif isinstance(obj, list):
        for i in range(len(obj)):
            yield prefix + (i,)
            yield from _paths(obj[i], prefix + (i,))


def _get(obj, path):
    for p in path:
        obj = obj[p]
    return obj


def _deleted(obj, path):
    new = copy.deepcopy(obj)
    parent = _get(new, path[:-1])
    del parent[path[-1]]
    return new


def _replaced(obj, path, value):
    new = copy.deepcopy(obj)
    parent = _get(new, path[:-1])
    parent[path[-1]] = value
    return new


def _simpler(value: Any) -> List[Any]:
    if isinstance(value, bool):
        return []
    if isinstance(value, int):
        return [v for v in (0, 1) if v != value]
    if isinstance(value, float):
        return [v for v in (1.0, 2.0) if v != value]
    if isinstance(value, str):
        return [] if len(value) <= 1 else [value[:1]]
    return []


def generic_candidates(case: Any) -> Iterator[Any]:
    paths = sorted(_paths(case), key=lambda p: (len(p), canon(list(p))))
    # deletions first (largest sub-trees first), then scalar simplifications
    sized = sorted(paths, key=lambda p: -len(canon(_get(case, p))))
    for p in sized:
        parent = _get(case, p[:-1])
        if isinstance(parent, list) or isinstance(parent, dict):
            yield _deleted(case, p)
    for p in paths:
        v = _get(case, p)
        for s in _simpler(v):
            yield _replaced(case, p, s)


def shrink_case(mod, case: Any, check: str, features: Dict[str, Any], budget: int = 300) -> Any:
    want = canon(features)
    valid = getattr(mod, "valid", lambda c: True)
    cand_fn = getattr(mod, "shrink_candidates", generic_candidates)

    def same_bucket(c) -> bool:
        try:
            if not valid(c):
                return False
            for d in mod.replay(c):
                if d["check"] == check and canon(d["features"]) == want:
                    return True
        except Exception:
            return False
        return False

    tried = 0
    best = case
    improved = True
    while improved and tried < budget:
        improved = False
        for cand in cand_fn(best):
            if tried >= budget:
                break
            if len(canon(cand)) >= len(canon(best)):
                continue
            tried += 1
            if same_bucket(cand):
                best = cand
                improved = True
                break
    return best
