"""Child-interpreter entry point: ``python -m verif.worker <prop> <specfile> <outfile>``.

Every shard, replay and shrink job runs in a fresh interpreter so that global state of the code
under test (component registry growth, monkey patches, TZ, hash seed) can never leak between
shards. The result (or the harness traceback) is written as JSON to <outfile>.
"""
from __future__ import annotations

import importlib
import json
import os
import sys
import traceback


def _silence_logging() -> None:
    import logging

    logging.disable(logging.CRITICAL)
    import warnings

    warnings.simplefilter("ignore")


def main(argv) -> int:
    prop, specfile, outfile = argv[1], argv[2], argv[3]
    with open(specfile) as fh:
        spec = json.load(fh)
    out = {"ok": False}
    try:
        _silence_logging()
        import semantiva  # noqa: F401

        repo = os.environ.get("VERIF_REPO", "/repo")
        if not os.path.realpath(semantiva.__file__).startswith(os.path.realpath(repo) + os.sep):
            raise RuntimeError(f"semantiva imported from {semantiva.__file__}, expected under {repo}")
        mod = importlib.import_module(f"verif.props.{prop.lower()}")
        mode = spec.get("mode", "run")
        if mode == "run":
            out = {"ok": True, "result": mod.run_shard(spec)}
        elif mode == "replay":
            out = {"ok": True, "discrepancies": mod.replay(spec["case"])}
        elif mode == "shrink":
            from verif.core.shrink import shrink_case

            out = {"ok": True, "shrunk": shrink_case(mod, spec["case"], spec["check"], spec["features"],
                                                     spec.get("budget", 300))}
        else:
            raise RuntimeError(f"unknown mode {mode}")
    except BaseException:  # harness error -> exit 2 in the parent, never a VIOLATION
        out = {"ok": False, "error": traceback.format_exc()}
    with open(outfile, "w") as fh:
        json.dump(out, fh, default=repr)
    sys.stdout.flush()
    sys.stderr.flush()
    os._exit(0 if out.get("ok") else 2)  # do not wait for stray daemon threads


if __name__ == "__main__":
    main(sys.argv)
