"""./vcheck <ID> --tier quick|thorough   |   ./vcheck <ID> --replay <file>

Exit codes: 0 property held on everything explored (KNOWN-FINDING lines allowed);
            1 a VIOLATION line was printed; 2 harness error (never a violation).
"""
from __future__ import annotations

import argparse
import importlib
import json
import os
import shutil
import subprocess
import sys
import tempfile
import time
import traceback
from concurrent.futures import ThreadPoolExecutor
from typing import Any, Dict, List, Optional

from .core.collect import canon, merge, short_hash

ROOT = os.path.dirname(os.path.dirname(os.path.abspath(__file__)))
PY = os.environ.get("VERIF_PYTHON", "/venv/bin/python")
NPROC = int(os.environ.get("VERIF_JOBS", "16"))


class HarnessError(Exception):
    pass


def _child_env(extra: Optional[Dict[str, str]]) -> Dict[str, str]:
    env = dict(os.environ)
    env["PYTHONPATH"] = ROOT + (":" + env["PYTHONPATH"] if env.get("PYTHONPATH") else "")
    env.setdefault("PYTHONHASHSEED", "0")
    env["PYTHONDONTWRITEBYTECODE"] = "1"
    env["VERIF_ROOT"] = ROOT
    if extra:
        env.update({k: str(v) for k, v in extra.items()})
    return env


def run_child(prop: str, spec: Dict[str, Any], workdir: str, idx: int) -> Dict[str, Any]:
    d = os.path.join(workdir, f"s{idx}")
    os.makedirs(d, exist_ok=True)
    specfile = os.path.join(d, "spec.json")
    outfile = os.path.join(d, "out.json")
    spec = dict(spec)
    spec["workdir"] = d
    with open(specfile, "w") as fh:
        json.dump(spec, fh)
    timeout = spec.get("timeout", 900)
    log = open(os.path.join(d, "log.txt"), "w")
    try:
        p = subprocess.Popen([PY, "-m", "verif.worker", prop, specfile, outfile], cwd=d,
                             env=_child_env(spec.get("env")), stdout=log, stderr=subprocess.STDOUT,
                             stdin=subprocess.DEVNULL)
        try:
            p.wait(timeout=timeout)
        except subprocess.TimeoutExpired:
            p.kill()
            p.wait()
            return {"ok": False, "timeout": True, "error": f"shard {idx} exceeded {timeout}s"}
    finally:
        log.close()
    if not os.path.exists(outfile):
        with open(os.path.join(d, "log.txt")) as fh:
            tail = fh.read()[-3000:]
        return {"ok": False, "error": f"shard {idx} died (rc={p.returncode}) without output:\n{tail}"}
    with open(outfile) as fh:
        out = json.load(fh)
    shutil.rmtree(d, ignore_errors=True)
    return out


def load_known(prop: str) -> List[Dict[str, Any]]:
    path = os.path.join(ROOT, "known_findings.json")
    if not os.path.exists(path):
        return []
    with open(path) as fh:
        data = json.load(fh)
    return [f for f in data.get("findings", []) if prop in f.get("properties", [])]


def match_known(bucket: Dict[str, Any], known: List[Dict[str, Any]]) -> Optional[Dict[str, Any]]:
    for f in known:
        if f.get("status") != "known":
            continue
        for sig in f.get("signatures", [f.get("signature")] if f.get("signature") else []):
            if sig.get("property") not in (None, bucket.get("property")):
                continue
            if sig["check"] != bucket["check"]:
                continue
            feats = sig.get("features", {})
            if all(k in bucket["features"] and canon(bucket["features"][k]) == canon(v) for k, v in feats.items()):
                return f
    return None


def write_replay(prop: str, bucket: Dict[str, Any], seed: int) -> str:
    os.makedirs(os.path.join(ROOT, "replays"), exist_ok=True)
    h = short_hash([bucket["check"], bucket["features"], bucket["case"]])[:12]
    path = os.path.join(ROOT, "replays", f"{prop}-{h}.json")
    with open(path, "w") as fh:
        json.dump({"property": prop, "check": bucket["check"], "features": bucket["features"],
                   "case": bucket["case"], "observed": bucket.get("observed"),
                   "expected": bucket.get("expected"), "seed": seed}, fh, indent=1, default=repr)
    return os.path.relpath(path, ROOT)


def do_replay(prop: str, path: str, workdir: str) -> int:
    with open(path) as fh:
        rep = json.load(fh)
    out = run_child(prop, {"mode": "replay", "case": rep["case"], "timeout": 600}, workdir, 0)
    if not out.get("ok"):
        print("HARNESS-ERROR:", out.get("error"))
        return 2
    ds = out["discrepancies"]
    known = load_known(prop)
    viol = 0
    for d in ds:
        d["property"] = prop
        f = match_known(d, known)
        if f:
            print(f"KNOWN-FINDING: property={prop} {f['id']} {f['what']}")
        else:
            viol += 1
            print(f"discrepancy check={d['check']} features={canon(d['features'])}")
            print(f"  observed={canon(d.get('observed'))[:600]}")
            print(f"  expected={canon(d.get('expected'))[:600]}")
    if viol:
        print(f"VIOLATION property={prop} replay={path}")
        return 1
    print(f"replay {path}: no unlisted discrepancy")
    return 0


def main(argv=None) -> int:
    ap = argparse.ArgumentParser()
    ap.add_argument("prop")
    ap.add_argument("--tier", default=os.environ.get("VERIF_TIER", "quick"), choices=["quick", "thorough"])
    ap.add_argument("--replay")
    ap.add_argument("--no-shrink", action="store_true")
    ap.add_argument("--scale", type=float, default=float(os.environ.get("VERIF_SCALE", "1")))
    args = ap.parse_args(argv)
    prop = args.prop.upper()
    seed = int(os.environ.get("VERIF_SEED", "1") or "1")
    os.makedirs(os.path.join(ROOT, ".work"), exist_ok=True)
    workdir = tempfile.mkdtemp(prefix=f"{prop}-", dir=os.path.join(ROOT, ".work"))
    try:
        if args.replay:
            return do_replay(prop, args.replay, workdir)
        return run_check(prop, args.tier, seed, workdir, args)
    except HarnessError as exc:
        print(f"HARNESS-ERROR: {exc}")
        return 2
    except Exception:
        print("HARNESS-ERROR:", traceback.format_exc())
        return 2
    finally:
        shutil.rmtree(workdir, ignore_errors=True)


def run_check(prop: str, tier: str, seed: int, workdir: str, args) -> int:
    t0 = time.time()
    mod = importlib.import_module(f"verif.props.{prop.lower()}")
    known = load_known(prop)
    violations: List[Dict[str, Any]] = []
    known_hits: Dict[str, int] = {}
    lines: List[str] = []

    # ---- replay tier: committed corpus ------------------------------------------------------
    corpus_dir = os.path.join(ROOT, "corpus", prop)
    corpus_files = sorted(os.listdir(corpus_dir)) if os.path.isdir(corpus_dir) else []
    corpus_files = [f for f in corpus_files if f.endswith(".json")]
    corpus_specs = []
    for f in corpus_files:
        with open(os.path.join(corpus_dir, f)) as fh:
            corpus_specs.append(json.load(fh))
    plan = mod.plan(tier, seed, args.scale) if _accepts_scale(mod.plan) else mod.plan(tier, seed)
    jobs = [("corpus", i, {"mode": "replay", "case": c["case"], "timeout": 600}) for i, c in enumerate(corpus_specs)]
    jobs += [("shard", i, dict(s, mode="run", tier=tier)) for i, s in enumerate(plan)]

    def _run(job):
        kind, i, spec = job
        return kind, i, run_child(prop, spec, workdir, (0 if kind == "corpus" else 1000) + i)

    # heavier shards first
    with ThreadPoolExecutor(max_workers=NPROC) as ex:
        outs = list(ex.map(_run, jobs))

    shard_results = []
    corpus_replayed = 0
    timeouts = 0
    for kind, i, out in outs:
        if not out.get("ok"):
            if out.get("timeout") and kind == "shard" and plan[i].get("timeout_ok"):
                timeouts += 1
                continue
            raise HarnessError(f"{kind} {i}: {out.get('error')}")
        if kind == "corpus":
            corpus_replayed += 1
            c = corpus_specs[i]
            for d in out["discrepancies"]:
                d["property"] = prop
                d.setdefault("case", c["case"])
                f = match_known(d, known)
                if f:
                    known_hits[f["id"]] = known_hits.get(f["id"], 0) + 1
                else:
                    d["origin"] = f"corpus/{prop}/{corpus_files[i]}"
                    d["count"] = 1
                    d["size"] = len(canon(d["case"]))
                    violations.append(d)
        else:
            shard_results.append(out["result"])

    m = merge(shard_results)
    if hasattr(mod, "finalize"):
        for b in mod.finalize(m):
            key = b["check"] + "|" + canon(b["features"])
            if key in m["buckets"]:
                m["buckets"][key]["count"] += 1
            else:
                m["buckets"][key] = b
    for b in m["buckets"].values():
        b["property"] = prop
        f = match_known(b, known)
        if f:
            known_hits[f["id"]] = known_hits.get(f["id"], 0) + b["count"]
        else:
            violations.append(b)

    # ---- generator health (exit 2, never a violation) --------------------------------------------
    reqs = mod.label_requirements(tier) if hasattr(mod, "label_requirements") else {}
    ev = max(1, m["evaluations"])
    bad = []
    for lab, minimum in reqs.items():
        have = m["labels"].get(lab, 0)
        ok = have >= minimum if isinstance(minimum, int) and not isinstance(minimum, bool) else have / ev >= minimum
        if not ok:
            bad.append(f"{lab}: {have}/{ev} < {minimum}")

    # ---- shrink + report ---------------------------------------------------------------------
    replay_paths = []
    seen = set()
    for b in sorted(violations, key=lambda b: (b["check"], canon(b["features"]))):
        key = b["check"] + "|" + canon(b["features"])
        if key in seen:
            continue
        seen.add(key)
        if not args.no_shrink and hasattr(mod, "replay") and len(replay_paths) < 8:
            out = run_child(prop, {"mode": "shrink", "case": b["case"], "check": b["check"],
                                   "features": b["features"], "budget": 200 if tier == "quick" else 600,
                                   "timeout": 240 if tier == "quick" else 900}, workdir, 5000 + len(replay_paths))
            if out.get("ok"):
                b["case"] = out["shrunk"]
        path = write_replay(prop, b, seed)
        replay_paths.append(path)
        lines.append(f"VIOLATION property={prop} replay={path}")
        lines.append(f"  check={b['check']} features={canon(b['features'])} hits={b.get('count', 1)}")
        lines.append(f"  observed={canon(b.get('observed'))[:500]}")
        lines.append(f"  expected={canon(b.get('expected'))[:500]}")

    for f in known:
        if f.get("status") == "known" and known_hits.get(f["id"]):
            print(f"KNOWN-FINDING: property={prop} {f['id']} {f['what']} (hits={known_hits[f['id']]})")
    for ln in lines:
        print(ln)

    distinct_nontrivial = len(m["nontrivial"]) + m["nontrivial_bulk"]
    samples = m["samples"][:12]
    coverage = {
        "evaluations": m["evaluations"],
        "distinct_nontrivial": distinct_nontrivial,
        "rule": mod.RULE,
        "samples": samples,
        "labels": dict(sorted(m["labels"].items())),
        "shards": len(plan),
        "shards_timed_out_inconclusive": timeouts,
        "inconclusive_cases": m["inconclusive"],
        "corpus_replayed": corpus_replayed,
        "known_finding_hits": known_hits,
        "excluded_by_construction": m["excluded"],
        "exhaustive": bool(getattr(mod, "EXHAUSTIVE", False)),
        "violating_buckets": [{"check": b["check"], "features": b["features"]} for b in violations][:20],
    }
    coverage.update(m["extra"])
    evidence = {
        "property_id": prop, "tier": tier, "seed": seed, "level": getattr(mod, "LEVEL", "exploration"),
        "coverage": coverage, "assumptions": list(getattr(mod, "ASSUMPTIONS", [])),
        "wall_s": round(time.time() - t0, 2), "violations": len(seen),
    }
    os.makedirs(os.path.join(ROOT, "evidence"), exist_ok=True)
    with open(os.path.join(ROOT, "evidence", f"{prop}.json"), "w") as fh:
        json.dump(evidence, fh, indent=1, default=repr, sort_keys=True)
        fh.write("\n")

    print(f"{prop} {tier} seed={seed}: evaluations={m['evaluations']} distinct_nontrivial={distinct_nontrivial} "
          f"known_hits={sum(known_hits.values())} violations={len(seen)} excluded={m['excluded']} "
          f"timeouts={timeouts} wall={evidence['wall_s']}s")
    if seen:
        return 1
    if bad:
        print("HARNESS-ERROR: generator health: " + "; ".join(bad))
        return 2
    if m["evaluations"] < 1 or distinct_nontrivial < 2:
        print("HARNESS-ERROR: vacuous run (no non-trivial cases)")
        return 2
    return 0


def _accepts_scale(fn) -> bool:
    import inspect

    return len(inspect.signature(fn).parameters) >= 3


if __name__ == "__main__":
    sys.exit(main())
