"""C06 — every run leaves a well-formed, schema-valid trace, whatever node fails."""
from __future__ import annotations

import copy
import os
import shutil
import tempfile
from typing import Any, Dict, List

from hypothesis import strategies as st

from ..core.campaign import run_campaign
from ..core.collect import Collector
from ..lib import gen, model as M, observe, tracelib

ID = "C06"
LEVEL = "fault_enumeration"
RULE = ("Hypothesis-generated pipelines x an injected fault {none, processor exception, KeyboardInterrupt, BaseException "
        "subclass (pre-built objects raised by a harness operation at a generated node index), unknown parameter or probe "
        "without context_key at a generated node (construction errors)} plus the generator's own unresolvable parameters, "
        "type-gate and undeclared-write failures, x detail {hash, repr, context, all} x {file, directory} output. The JSONL "
        "stream is checked against the registry schemas, the stream grammar and cross-record invariants; the exception is "
        "compared (identity for injected objects) with the untraced run. non-trivial = failure at node index >= 1, or a "
        "construction / BaseException kind, or >= 3 nodes; distinct = canonical JSON of (case, fault, detail, mode)")
ASSUMPTIONS = [
    "the number of nodes that started is taken from the untraced run of the same case (completed nodes + the failing one); C01 ties that run to the documented semantics",
    "schemas and the record_type->schema registry are the files shipped in semantiva/trace/schema; date-time format is checked with jsonschema's FormatChecker",
    "'flushed and closed' = immediately after the call returns the file ends with a newline, every line parses, and no descriptor in /proc/self/fd points at it",
]

INJECT = ["none", "none", "raise_value", "raise_runtime", "raise_keyboard", "raise_abort", "raise_value_empty", "raise_keyboard_empty",
          "raise_assert_empty", "unknown_param", "probe_no_key", "nonfinite_param", "odd_param", "odd_param",
          "init_keyboard", "init_abort", "init_value", "unknown_param_nonstring",
          "raise_key_empty", "raise_key_tuple", "raise_os_empty", "raise_args_two", "raise_system_exit",
          "unknown_processor", "unknown_param_then_unknown_processor"]
NONFINITE = [float("inf"), float("-inf"), float("nan")]
DETAILS = ["hash", "repr", "context", "all", "hash,repr"]


@st.composite
def c06_case(draw):
    case = draw(gen.case(max_nodes=6, rich_sweeps="numpy"))
    case["inject"] = draw(st.sampled_from(INJECT))
    case["pos"] = draw(st.integers(0, 12))
    case["detail"] = draw(st.sampled_from(DETAILS))
    case["mode"] = draw(st.sampled_from(["file", "dir", "file", "dir_dotted"]))
    return case


def materialise(case: Dict[str, Any]) -> Dict[str, Any]:
    """Apply the injected fault; returns the concrete case (+ 'applied' kind)."""
    c = {"nodes": copy.deepcopy(case["nodes"]), "ctx": copy.deepcopy(case.get("ctx") or {}), "data": copy.deepcopy(case["data"])}
    inj, pos = case.get("inject", "none"), case.get("pos", 0)
    applied = "none"
    if inj.startswith("raise_"):
        m = M.run(c)
        spots = [e["index"] for e in m["log"] if M.kind_of(e["in"]) == "Float"]
        if m["ok"] and M.kind_of(m["data"]) == "Float":
            spots.append(len(c["nodes"]))
        if spots:
            at = spots[pos % len(spots)]
            c["nodes"].insert(at, {"p": "VRaiseOp", "params": {"kind": inj.split("_", 1)[1]}})
            applied, c["fault_index"] = inj, at
    elif inj == "nonfinite_param":
        # a non-finite float among the traced parameters (node configuration or context); the run itself is unaffected
        value = NONFINITE[pos % 3]
        idxs = [i for i, n in enumerate(c["nodes"]) if n["p"] in ("FloatMultiplyOperation", "FloatAddOperation", "FloatMultiplyOperationWithDefault", "VEchoProbe", "VInPlaceScaleOp")
                and not n.get("sweep")]
        if idxs:
            at = idxs[pos % len(idxs)]
            pname = M.LIB[c["nodes"][at]["p"]]["params"][0][0]
            if (pos // 3) % 2 == 0:
                c["nodes"][at].setdefault("params", {})[pname] = value
            else:
                (c["nodes"][at].get("params") or {}).pop(pname, None)
                c["ctx"][pname] = value
            applied, c["fault_index"] = inj, at
    elif inj.startswith("init_"):
        # the constructor of a node's processor aborts (Ctrl-C class or ordinary exception) while the nodes are instantiated
        m = M.run(c)
        spots = [e["index"] for e in m["log"] if M.kind_of(e["in"]) == "Float"]
        if m["ok"] and M.kind_of(m["data"]) == "Float":
            spots.append(len(c["nodes"]))
        if spots:
            at = spots[pos % len(spots)]
            c["nodes"].insert(at, {"p": "VInitFaultOp"})
            c["init_fault"] = inj.split("_", 1)[1]
            applied, c["fault_index"] = inj, at
    elif inj == "odd_param":
        # a legal but unusual Python value (mixed-key dict, set, bytes, numpy array, lone surrogate ...) among the traced parameters
        name = observe.ODD_NAMES[pos % len(observe.ODD_NAMES)]
        idxs = [i for i, n in enumerate(c["nodes"]) if n["p"] in ("VEchoProbe", "FloatMultiplyOperation", "FloatAddOperation", "FloatMultiplyOperationWithDefault", "VInPlaceScaleOp")
                and not n.get("sweep")]
        if idxs:
            at = idxs[pos % len(idxs)]
            pname = M.LIB[c["nodes"][at]["p"]]["params"][0][0]
            (c["nodes"][at].get("params") or {}).pop(pname, None)
            c["ctx"][pname] = {"$odd": name}
            applied, c["fault_index"] = inj, at
    elif inj in ("unknown_processor", "unknown_param_then_unknown_processor"):
        # a processor reference that resolves to nothing, optionally after an earlier node with an unknown parameter:
        # the error of the FIRST faulty node must be the one raised, traced or not
        at = 1 + pos % max(1, len(c["nodes"]))
        c["nodes"].insert(at, {"p": "NoSuchProcessorXYZ"})
        if inj == "unknown_param_then_unknown_processor":
            idxs = [i for i, n in enumerate(c["nodes"][:at]) if M.describe(n)["kind"] != "ctx" and not n.get("sweep")]
            if idxs:
                c["nodes"][idxs[pos % len(idxs)]].setdefault("params", {})["zz"] = 1.0
        applied, c["fault_index"] = inj, at
    elif inj == "unknown_param_nonstring":
        # YAML turns `on:` / `0:` into non-string keys; such a parameter name is unknown to every processor
        idxs = [i for i, n in enumerate(c["nodes"]) if M.describe(n)["kind"] != "ctx" and not n.get("sweep") and not n.get("params")]
        if idxs:
            at = idxs[pos % len(idxs)]
            c["nodes"][at]["params"] = {["$key:true", "$key:0", "$key:false"][pos % 3]: 1.0}
            applied, c["fault_index"] = inj, at
    elif inj == "unknown_param":
        idxs = [i for i, n in enumerate(c["nodes"]) if M.describe(n)["kind"] != "ctx" and not n.get("sweep")]
        if idxs:
            at = idxs[pos % len(idxs)]
            c["nodes"][at].setdefault("params", {})["zz"] = 1.0
            applied, c["fault_index"] = inj, at
    elif inj == "probe_no_key":
        idxs = [i for i, n in enumerate(c["nodes"]) if M.describe(n)["kind"] == "probe" and not n.get("sweep")]
        if idxs:
            at = idxs[pos % len(idxs)]
            c["nodes"][at].pop("context_key", None)
        else:
            at = pos % (len(c["nodes"]) + 1)
            c["nodes"].insert(at, {"p": "FloatCollectValueProbe"})
        applied, c["fault_index"] = inj, at
    c["applied"] = applied
    return c


def _same_exc(a: BaseException, b: BaseException) -> bool:
    return type(a) is type(b) and str(a) == str(b)


def check_case(case: Dict[str, Any], col: Collector, workroot: str = ".") -> None:
    from ..lib import components

    c = materialise(case)
    applied = c["applied"]
    detail, mode = case.get("detail", "hash"), case.get("mode", "file")
    run_case = {k: c[k] for k in ("nodes", "ctx", "data")}
    if c.get("init_fault"):
        run_case["init_fault"] = c["init_fault"]
    for p in gen.PATHS:
        if os.path.exists(p):
            os.remove(p)
    ref = observe.run_real(run_case)
    if not ref["constructed"]:
        col.exclude(1, "pipeline_constructor_rejects")
        return
    tdir = tempfile.mkdtemp(prefix="c06-", dir=workroot)
    try:
        r = tracelib.run_traced(run_case, detail, mode, tdir)
        _judge(case, c, applied, detail, mode, ref, r, col, components)
    finally:
        shutil.rmtree(tdir, ignore_errors=True)
        for p in gen.PATHS:
            if os.path.exists(p):
                os.remove(p)


def _judge(case, c, applied, detail, mode, ref, r, col, components) -> None:
    feats0 = {"fault": _fault_kind(applied, ref), "mode": mode}
    n_nodes = len(c["nodes"])
    construction = (not ref["ok"]) and ref.get("n_last_nodes", 0) == 0 and not ref["published"] and _is_construction(ref)
    completed = len(ref["published"])
    started = 0 if construction else (completed if ref["ok"] else completed + 1)
    labs = ["fault:" + feats0["fault"], "detail:" + detail, "mode:" + mode, "ok" if ref["ok"] else "fails",
            f"fault:{feats0['fault']}|detail:{detail.split(',')[0]}"]
    fail_index = None if ref["ok"] else (None if construction else completed)
    nontriv = (fail_index is not None and fail_index >= 1) or construction or applied in ("raise_keyboard", "raise_abort", "raise_keyboard_empty") or n_nodes >= 3
    col.count({k: case.get(k) for k in ("nodes", "ctx", "data", "inject", "pos", "detail", "mode")}, labs, nontriv)
    rep = {k: case.get(k) for k in ("nodes", "ctx", "data", "inject", "pos", "detail", "mode")}

    def bad(check: str, extra: Dict[str, Any] = None, observed=None, expected=None):
        col.add(check, dict(feats0, **(extra or {})), rep, observed, expected)

    # ---- the caller sees the same outcome as without tracing -------------------------------------
    if ref["ok"] != r["ok"]:
        bad("outcome_differs_from_untraced", observed=r.get("exc_type"), expected=ref.get("exc_type"))
    elif not ref["ok"]:
        if (applied.startswith("raise_") or applied.startswith("init_")) and type(ref["exc"]).__name__ in M.EXC_NAMES.values():
            kind = applied.split("_", 1)[1]
            if r["exc"] is not components.EXC_OBJECTS[kind]:
                bad("exception_not_the_original_object", observed=repr(r["exc"])[:120], expected=repr(components.EXC_OBJECTS[kind]))
        if not _same_exc(ref["exc"], r["exc"]):
            bad("exception_differs_from_untraced", observed=repr(r["exc"])[:160], expected=repr(ref["exc"])[:160])
    # ---- file level ------------------------------------------------------------------------------
    if r["open_fds"]:
        bad("trace_file_left_open", observed=r["open_fds"])
    if len(r["trace_files"]) != 1:
        bad("trace_file_count", observed=len(r["trace_files"]), expected=1)
        return
    t = r["traces"][0]
    if t["bad_lines"] or not t["complete"]:
        bad("trace_not_line_complete_json", observed={"bad": t["bad_lines"], "complete": t["complete"]})
    recs = t["records"]
    for rec in recs:
        errs = tracelib.schema_errors(rec)
        if errs:
            bad("schema_violation", {"record_type": str(rec.get("record_type"))}, observed=errs[:3])
            break
    # ---- stream grammar ----------------------------------------------------------------------------
    types = [rec.get("record_type") for rec in recs]
    want = ["pipeline_start"] + ["ser"] * started + ["pipeline_end"]
    if types != want:
        shape = ("no_pipeline_end" if "pipeline_end" not in types else "extra_or_misplaced_end" if types.count("pipeline_end") != 1 or types[-1] != "pipeline_end"
                 else "ser_count" if types.count("ser") != started else "order")
        bad("stream_grammar", {"shape": shape}, observed=types, expected=want)
    if not recs or types[0] != "pipeline_start":
        return
    start = recs[0]
    canon = (start.get("pipeline_spec_canonical") or {}).get("nodes", [])
    uuids = [n.get("node_uuid") for n in canon]
    if len(uuids) != n_nodes:
        bad("canonical_node_count", observed=len(uuids), expected=n_nodes)
    sers = [rec for rec in recs if rec.get("record_type") == "ser"]
    run_ids = {start.get("run_id")} | {s.get("identity", {}).get("run_id") for s in sers} | {rec.get("run_id") for rec in recs if rec.get("record_type") == "pipeline_end"}
    pipe_ids = {start.get("pipeline_id")} | {s.get("identity", {}).get("pipeline_id") for s in sers}
    if len(run_ids) != 1 or None in run_ids:
        bad("run_id_not_shared", observed=sorted(map(str, run_ids)))
    if len(pipe_ids) != 1 or None in pipe_ids:
        bad("pipeline_id_not_shared", observed=sorted(map(str, pipe_ids)))
    for i, s in enumerate(sers):
        if i < len(uuids) and s.get("identity", {}).get("node_id") != uuids[i]:
            bad("ser_node_order", observed=s.get("identity", {}).get("node_id"), expected=uuids[i])
            break
    edges = (start.get("pipeline_spec_canonical") or {}).get("edges", [])
    up: Dict[str, List[str]] = {u: [] for u in uuids}
    for e in edges:
        up.setdefault(e["target"], []).append(e["source"])
    for i, s in enumerate(sers):
        nid = s.get("identity", {}).get("node_id")
        if s.get("dependencies", {}).get("upstream") != up.get(nid, []):
            bad("ser_upstream_not_canonical_edges", observed=s.get("dependencies"), expected=up.get(nid))
            break
    if uuids and edges != [{"source": uuids[i], "target": uuids[i + 1]} for i in range(len(uuids) - 1)]:
        bad("canonical_edges_not_linear_chain", observed=edges[:3])
    statuses = [s.get("status") for s in sers]
    want_status = ["succeeded"] * len(sers)
    if not ref["ok"] and not construction and sers and len(sers) == started:
        want_status[-1] = "error"
    if statuses != want_status:
        bad("ser_status", observed=statuses, expected=want_status)
    ends = [rec for rec in recs if rec.get("record_type") == "pipeline_end"]
    if ends:
        st_ = (ends[-1].get("summary") or {}).get("status")
        if (st_ == "ok") != bool(r["ok"]):
            bad("pipeline_end_status", observed=st_, expected="ok" if r["ok"] else "error")
    if sers and not ref["ok"] and not construction and len(sers) == started:
        err = sers[-1].get("error") or {}
        if err.get("type") != type(ref["exc"]).__name__:
            bad("error_ser_exception_type", observed=err.get("type"), expected=type(ref["exc"]).__name__)


def _is_construction(ref) -> bool:
    tb = ref.get("tb_funcs") or []
    return any(fn == "_instantiate_nodes" for _f, fn in tb)


def _fault_kind(applied: str, ref) -> str:
    if applied != "none":
        return applied
    if ref["ok"]:
        return "none"
    exc = ref["exc"]
    tb = ref.get("tb_funcs") or []
    if any(fn == "_instantiate_nodes" for _f, fn in tb):
        return "construction_other"
    if isinstance(exc, KeyError) and tb and tb[-1][1] == "resolve_runtime_value":
        return "unresolved_parameter"
    if isinstance(exc, TypeError) and tb and tb[-1] == ("nodes.py", "_process"):
        return "type_gate"
    if isinstance(exc, KeyError) and any(fn in ("_notify_context_update", "update") for _f, fn in tb[-2:]):
        return "undeclared_write"
    return "processor_exception"


def plan(tier: str, seed: int, scale: float = 1.0) -> List[Dict[str, Any]]:
    nshards, n = (48, 200) if tier == "quick" else (256, 220)
    # the environment a run starts in is recorded in every SER (environment pins): three settings of the documented variable
    envs = [{}, {"SEMANTIVA_GIT_REV": "0123abc"}, {"SEMANTIVA_GIT_REV": "v0.5.0-3-g0123abc-dirty"}]
    return [{"seed": seed * 4099 + i, "n": max(10, int(n * scale)), "timeout": 900, "env": envs[i % 3]} for i in range(nshards)]


def run_shard(spec: Dict[str, Any]) -> Dict[str, Any]:
    col = Collector()
    run_campaign(c06_case(), lambda c: check_case(c, col, spec.get("workdir", ".")), spec["n"], spec["seed"])
    return col.result()


def replay(case: Dict[str, Any]) -> List[Dict[str, Any]]:
    col = Collector()
    check_case(case, col)
    return [{"check": b["check"], "features": b["features"], "observed": b["observed"], "expected": b["expected"],
             "case": b["case"]} for b in col.buckets.values()]


def valid(case: Any) -> bool:
    from .c01 import valid as v1

    try:
        if not v1({k: case[k] for k in ("nodes", "ctx", "data")}):
            return False
        return case.get("inject", "none") in INJECT and case.get("mode", "file") in ("file", "dir", "dir_dotted") and isinstance(case.get("pos", 0), int)
    except Exception:
        return False


def label_requirements(tier: str) -> Dict[str, Any]:
    req: Dict[str, Any] = {"mode:file": 0.3, "mode:dir": 0.15, "mode:dir_dotted": 0.1, "ok": 0.15, "fails": 0.3}
    for f in ("raise_value", "raise_keyboard", "raise_abort", "raise_value_empty", "raise_keyboard_empty", "raise_assert_empty", "nonfinite_param", "odd_param", "init_keyboard", "init_abort", "init_value", "unknown_param_nonstring",
              "raise_key_empty", "raise_key_tuple", "raise_os_empty", "raise_args_two", "raise_system_exit",
              "unknown_processor", "unknown_param_then_unknown_processor",
              "unknown_param", "probe_no_key", "unresolved_parameter", "type_gate", "processor_exception"):
        req["fault:" + f] = 0.006
        for d in ("hash", "repr", "context", "all"):
            req[f"fault:{f}|detail:{d}"] = 1
    req["fault:undeclared_write"] = 3
    return req
