"""C12 — equal ExpressionSigV1 signatures imply equal values; commuted forms agree.

Three oracles (DESIGN C12):
 (a) metamorphic-equal: commuting / re-associating operands of + and * keeps the signature;
 (b) soundness: all expressions with one signature evaluate identically on an integer grid in
     exact arithmetic (and have the same polynomial normal form in the polynomial fragment);
 (c) discrimination: swapping operands of a non-commutative operator (with differently-signed
     operands), changing a constant, a variable or a function changes the signature.
"""
from __future__ import annotations

import itertools
import json
import zlib
from typing import Any, Dict, Iterator, List, Tuple

from ..core.collect import Collector

ID = "C12"
LEVEL = "exploration"
EXHAUSTIVE = True
RULE = ("exhaustive: all expression trees with <= N nodes over {x,y,0,1,2,+,*,-,unary -} (polynomial fragment, "
        "N=7 quick / 8 thorough) and all trees with <= 5 nodes over {x,y,1,2,+,*,-,//,%,**c,<,==,unary -,abs,min,max,if-else}; "
        "sampled: Hypothesis-random trees with <= 9 operators over the full operator set with random commutations, "
        "re-associations and single-operator mutations. Expressions are grouped by signature (shards are keyed by the "
        "multiset of leaves, which any signature-equal pair shares). non-trivial = >= 2 commutative (+,*) nodes or member "
        "of a signature bucket with >= 2 syntactically different members; distinct = distinct source text")
ASSUMPTIONS = [
    "exact arithmetic = Python ints on the grid {-2,-1,0,1,2}^3 (polynomial fragment additionally by normal form); 'raises the same exception type' counts as equal",
    "exponents of ** are constants 0..3; / is excluded (not exact); strings are excluded (numeric expressions only)",
    "swaps of == / != operands are not required to change the signature (they are commutative in value)",
]

Expr = Any  # nested tuples
GRID = (-2, -1, 0, 1, 2)
COMM = ("+", "*")
NONCOMM = ("-", "//", "%", "**")
ORDER = ("<", "<=", ">", ">=")


def show(e: Expr) -> str:
    k = e[0]
    if k == "v":
        return e[1]
    if k == "c":
        return str(e[1]) if e[1] >= 0 else f"({e[1]})"
    if k == "u":
        return f"(-{show(e[1])})"
    if k == "b":
        return f"({show(e[2])} {e[1]} {show(e[3])})"
    if k == "f":
        return f"{e[1]}({', '.join(show(a) for a in e[2:])})"
    if k == "if":
        return f"({show(e[2])} if {show(e[1])} else {show(e[3])})"
    if k == "cmp":  # chained comparison: one Compare node with two operators
        return f"({show(e[3])} {e[1]} {show(e[4])} {e[2]} {show(e[5])})"
    raise ValueError(e)


def leaves_of(e: Expr, out: List[str]) -> List[str]:
    if e[0] in ("v", "c"):
        out.append(str(e[1]))
    else:
        for c in e[1:]:
            if isinstance(c, tuple):
                leaves_of(c, out)
    return out


def ncomm(e: Expr) -> int:
    if e[0] in ("v", "c"):
        return 0
    n = 1 if e[0] == "b" and e[1] in COMM else 0
    return n + sum(ncomm(c) for c in e[1:] if isinstance(c, tuple))


def shard_of(e: Expr, of: int) -> int:
    key = ",".join(sorted(leaves_of(e, [])))
    return zlib.crc32(key.encode()) % of


# ---- exhaustive fragments -------------------------------------------------------------------
def enum_poly(n: int) -> Dict[int, List[Expr]]:
    L: List[Expr] = [("v", "x"), ("v", "y"), ("c", 0), ("c", 1), ("c", 2)]
    T: Dict[int, List[Expr]] = {1: L}
    for size in range(2, n + 1):
        cur: List[Expr] = [("u", t) for t in T[size - 1]]
        for i in range(1, size - 1):
            for a in T[i]:
                for b in T[size - 1 - i]:
                    for op in ("+", "*", "-"):
                        cur.append(("b", op, a, b))
        T[size] = cur
    return T


def enum_ext(n: int) -> Dict[int, List[Expr]]:
    L: List[Expr] = [("v", "x"), ("v", "y"), ("c", 1), ("c", 2)]
    T: Dict[int, List[Expr]] = {1: L}
    for size in range(2, n + 1):
        cur: List[Expr] = []
        for t in T[size - 1]:
            cur.append(("u", t))
            cur.append(("f", "abs", t))
            for c in (2, 3):
                cur.append(("b", "**", t, ("c", c)))
        for i in range(1, size - 1):
            for a in T[i]:
                for b in T[size - 1 - i]:
                    for op in ("+", "*", "-", "//", "%", "<", "=="):
                        cur.append(("b", op, a, b))
                    cur.append(("f", "min", a, b))
                    cur.append(("f", "max", a, b))
        if size >= 4:
            for i, j in itertools.product(range(1, size - 2), repeat=2):
                k = size - 1 - i - j
                if k < 1:
                    continue
                for a in T[i]:
                    for b in T[j]:
                        for c in T[k]:
                            cur.append(("if", a, b, c))
                            if size == 4:  # three leaves: every chained comparison over the leaf set
                                for o1, o2 in (("<", "<"), ("<", ">"), ("<=", "=="), (">", ">="), (">=", ">"), ("<", "<="), ("<=", "<")):
                                    cur.append(("cmp", o1, o2, a, b, c))
        T[size] = cur
    return T


# ---- exact evaluation and polynomial normal form -------------------------------------------------
def fingerprint(src: str, nvars: int = 3, third: str = "z") -> str:
    code = compile(src, "<c12>", "eval")
    vals = []
    env = {"abs": abs, "min": min, "max": max, "__builtins__": {}}
    pts = itertools.product(GRID, repeat=nvars)
    for p in pts:
        loc = dict(zip(("x", "y", third), p))
        try:
            v = eval(code, env, loc)
            if isinstance(v, bool):
                v = int(v)
            vals.append(v)
        except ZeroDivisionError:
            vals.append("ZeroDivisionError")
        except OverflowError:
            vals.append("OverflowError")
    return json.dumps(vals, separators=(",", ":"))


Poly = Dict[Tuple[int, int], int]


def poly(e: Expr) -> Poly:
    k = e[0]
    if k == "v":
        return {((1, 0) if e[1] == "x" else (0, 1)): 1}
    if k == "c":
        return {(0, 0): e[1]} if e[1] else {}
    if k == "u":
        return {m: -c for m, c in poly(e[1]).items()}
    a, b = poly(e[2]), poly(e[3])
    out: Poly = {}
    if e[1] in ("+", "-"):
        sgn = 1 if e[1] == "+" else -1
        out = dict(a)
        for m, c in b.items():
            out[m] = out.get(m, 0) + sgn * c
    else:
        for (m1, c1), (m2, c2) in itertools.product(a.items(), b.items()):
            m = (m1[0] + m2[0], m1[1] + m2[1])
            out[m] = out.get(m, 0) + c1 * c2
    return {m: c for m, c in out.items() if c}


def poly_key(e: Expr) -> str:
    return json.dumps(sorted(poly(e).items()))


# ---- rewrites ---------------------------------------------------------------------------------
def flatten(e: Expr, op: str, out: List[Expr]) -> List[Expr]:
    if e[0] == "b" and e[1] == op:
        flatten(e[2], op, out)
        flatten(e[3], op, out)
    else:
        out.append(e)
    return out


def mirror(e: Expr) -> Expr:
    """Reverse the operand order of every + and * (a commutation at every commutative node)."""
    k = e[0]
    if k in ("v", "c"):
        return e
    if k == "b" and e[1] in COMM:
        return ("b", e[1], mirror(e[3]), mirror(e[2]))
    return tuple(mirror(c) if isinstance(c, tuple) else c for c in e)


def rebracket(e: Expr, right: bool) -> Expr:
    """Re-associate every maximal + / * chain fully to the left or to the right."""
    k = e[0]
    if k in ("v", "c"):
        return e
    if k == "b" and e[1] in COMM:
        terms = [rebracket(t, right) for t in flatten(e, e[1], [])]
        if right:
            cur = terms[-1]
            for t in reversed(terms[:-1]):
                cur = ("b", e[1], t, cur)
        else:
            cur = terms[0]
            for t in terms[1:]:
                cur = ("b", e[1], cur, t)
        return cur
    return tuple(rebracket(c, right) if isinstance(c, tuple) else c for c in e)


def permuted(e: Expr, draw) -> Expr:
    """Random permutation + random re-association of every maximal +/* chain (draw = Hypothesis data)."""
    from hypothesis import strategies as st

    k = e[0]
    if k in ("v", "c"):
        return e
    if k == "b" and e[1] in COMM:
        terms = [permuted(t, draw) for t in flatten(e, e[1], [])]
        terms = list(draw(st.permutations(terms)))
        while len(terms) > 1:
            i = draw(st.integers(0, len(terms) - 2))
            terms[i:i + 2] = [("b", e[1], terms[i], terms[i + 1])]
        return terms[0]
    return tuple(permuted(c, draw) if isinstance(c, tuple) else c for c in e)


def subterms(e: Expr, path=()) -> Iterator[Tuple[tuple, Expr]]:
    yield path, e
    if e[0] not in ("v", "c"):
        for i, c in enumerate(e):
            if isinstance(c, tuple):
                yield from subterms(c, path + (i,))


def replace(e: Expr, path: tuple, new: Expr) -> Expr:
    if not path:
        return new
    lst = list(e)
    lst[path[0]] = replace(e[path[0]], path[1:], new)
    return tuple(lst)


def mutations(e: Expr) -> Iterator[Tuple[str, Expr, bool]]:
    """(kind, mutant, needs_operand_sig_difference)"""
    for path, t in subterms(e):
        if t[0] == "b" and (t[1] in NONCOMM or t[1] in ORDER):
            if t[1] == "**":
                continue  # exponent is a constant by construction; swapping changes the domain
            yield (f"swap:{t[1]}", replace(e, path, ("b", t[1], t[3], t[2])), True)
        elif t[0] == "c":
            yield ("const", replace(e, path, ("c", t[1] + 1)), False)
        elif t[0] == "v":
            yield ("var", replace(e, path, ("v", {"x": "y", "y": "x", "z": "x", "X": "y"}[t[1]])), False)
        elif t[0] == "f" and t[1] in ("min", "max"):
            yield ("func", replace(e, path, ("f", "max" if t[1] == "min" else "min") + t[2:]), False)
        elif t[0] == "if":
            yield ("swap:ifelse", replace(e, path, ("if", t[1], t[3], t[2])), True)
        elif t[0] == "cmp":
            yield ("swap:chain", replace(e, path, ("cmp", t[1], t[2], t[3], t[5], t[4])), True)
            if t[1] != t[2]:
                yield ("swapops:chain", replace(e, path, ("cmp", t[2], t[1], t[3], t[4], t[5])), False)
        if t[0] == "b" and t[1] in ("+", "-"):
            yield (f"op:{t[1]}", replace(e, path, ("b", "-" if t[1] == "+" else "+", t[2], t[3])), False)


# ---- the per-expression oracle clauses -----------------------------------------------------------
class Ctx:
    def __init__(self, col: Collector):
        from semantiva.metadata.semantic_id import normalize_expression_sig_v1

        self.col = col
        self._sig = normalize_expression_sig_v1
        self.buckets: Dict[str, Dict[str, Any]] = {}
        self.third = "z"  # name of the third variable: "X" in some shards (differs from "x" by case only)

    def sig(self, src: str) -> str:
        s = self._sig(src)
        return json.dumps(s, sort_keys=True)


def examine(cx: Ctx, e: Expr, fragment: str, variants: List[Tuple[str, Expr]], do_mut: bool) -> None:
    col = cx.col
    src = show(e)
    sig = cx.sig(src)
    fp = poly_key(e) if fragment == "poly" else fingerprint(src, 2 if fragment == "ext" else 3, cx.third)
    # (b) soundness: bucket by signature
    b = cx.buckets.get(sig)
    multi = False
    if b is None:
        cx.buckets[sig] = {"fp": fp, "src": src, "n": 1}
    else:
        if b["src"] != src:
            b["n"] += 1
            multi = True
        if b["fp"] != fp:
            col.add("same_signature_different_value", {"fragment": fragment},
                    {"a": b["src"], "b": src, "fragment": fragment}, observed={"signature": sig[:200]},
                    expected="different signatures (values differ)")
    labels = [fragment]
    if "cmp" in json.dumps(e):
        labels.append("chained_comparison")
    if cx.third == "X" and "X" in src and "x" in src:
        labels.append("case_differing_names")
    # (a) commutation / re-association keeps the signature
    for kind, v in variants:
        vs = show(v)
        if vs == src:
            continue
        labels.append("variant:" + kind)
        if cx.sig(vs) != sig:
            col.add("commuted_form_changes_signature", {"rewrite": kind}, {"a": src, "b": vs, "expect": "equal", "rewrite": kind},
                    observed="signatures differ", expected="equal signatures")
    # (c) discrimination
    if do_mut:
        for kind, mt, need_diff in mutations(e):
            ms = show(mt)
            if ms == src:
                continue
            if need_diff:
                # only when the swapped operands have different signatures themselves
                sw = _swapped_operands(e, mt)
                if sw is not None and cx.sig(show(sw[0])) == cx.sig(show(sw[1])):
                    continue
            labels.append("mutation:" + kind.split(":")[0])
            if cx.sig(ms) == sig:
                col.add("mutation_keeps_signature", {"mutation": kind}, {"a": src, "b": ms, "expect": "different", "mutation": kind},
                        observed="equal signatures", expected="different signatures")
    col.count({"expr": src}, labels, ncomm(e) >= 2 or multi, key=src)


def _swapped_operands(e: Expr, m: Expr):
    """Locate the node where e and m differ and return its two operands (as in e)."""
    if e == m:
        return None
    if e[0] != m[0] or len(e) != len(m):
        return None
    diffs = [i for i in range(len(e)) if e[i] != m[i]]
    if len(diffs) == 1 and isinstance(e[diffs[0]], tuple):
        return _swapped_operands(e[diffs[0]], m[diffs[0]])
    if e[0] == "b":
        return (e[2], e[3])
    if e[0] == "if":
        return (e[2], e[3])
    if e[0] == "cmp" and e[1:3] == m[1:3]:
        return (e[4], e[5])
    return None


# ---- random trees -------------------------------------------------------------------------------
def random_strategy(third: str = "z"):
    from hypothesis import strategies as st

    leaf = st.one_of(st.sampled_from([("v", "x"), ("v", "y"), ("v", third)]),
                     st.integers(-3, 3).map(lambda c: ("c", c)),
                     st.sampled_from([2 ** 53, 2 ** 53 + 1, 2 ** 63 - 1, 10 ** 30 + 7, 12345678901234567]).map(lambda c: ("c", c)))

    def ext(ch):
        return st.one_of(
            st.tuples(st.just("b"), st.sampled_from(["+", "*", "+", "*", "-", "//", "%", "<", "<=", ">", ">=", "==", "!="]), ch, ch),
            st.tuples(st.just("b"), st.just("**"), ch, st.integers(0, 3).map(lambda c: ("c", c))),
            st.tuples(st.just("u"), ch),
            st.tuples(st.just("f"), st.just("abs"), ch),
            st.tuples(st.just("f"), st.sampled_from(["min", "max"]), ch, ch),
            st.tuples(st.just("if"), ch, ch, ch),
            st.tuples(st.just("cmp"), st.sampled_from(["<", "<=", ">", ">=", "=="]), st.sampled_from(["<", ">", "<=", ">=", "!="]), ch, ch, ch),
        )

    return st.recursive(leaf, ext, max_leaves=10)


def payload_clause(col: Collector, seed: int, n: int) -> None:
    """The signatures as published: `parameters_sig` of the inspection payload must carry, under each swept parameter's
    own name, exactly the signature of that parameter's expression (two parameters, declared in either order)."""
    import random

    from semantiva.inspection import build_inspection_payload
    from semantiva.metadata.semantic_id import normalize_expression_sig_v1

    from ..lib import observe

    observe.ensure_registered()
    rnd = random.Random(seed)
    pool = [e for size, es in enum_ext(3).items() for e in es if size >= 2]
    for i in range(n):
        e1, e2 = rnd.choice(pool), rnd.choice(pool)
        s1, s2 = show(e1), show(e2)
        params = {"q": s2, "p": s1} if i % 2 else {"p": s1, "q": s2}
        cfg = {"extensions": ["verif.lib.components"], "pipeline": {"nodes": [
            {"processor": "FloatDataSource"},
            {"processor": "VEchoProbe", "context_key": "e", "derive": {"parameter_sweep": {"parameters": params, "variables": {"x": [1.0, 2.0], "y": [0.5]}}}}]}}
        case = {"a": s1, "b": s2, "payload": True, "order": list(params)}
        col.count(case, ["payload", "declared:" + "".join(params)], True, key="payload:" + s1 + "|" + s2 + "|" + "".join(params))
        try:
            sigs = build_inspection_payload(cfg)["pipeline_spec_canonical"]["nodes"][1]["preprocessor_metadata"]["derive"]["parameter_sweep"]["parameters_sig"]
        except Exception as exc:  # noqa: BLE001
            col.add("payload_signatures_unavailable", {"exc": type(exc).__name__}, case, repr(exc)[:160])
            continue
        want = {"p": normalize_expression_sig_v1(s1), "q": normalize_expression_sig_v1(s2)}
        if sigs != want:
            col.add("payload_signature_not_of_own_expression", {"declared": "".join(params)}, case, sigs, want)
        if i % 4 == 0:
            # two sweep nodes over the SAME processor in one pipeline, each with its own expression
            cfg2 = {"extensions": ["verif.lib.components"], "pipeline": {"nodes": [
                {"processor": "FloatDataSource"},
                {"processor": "VEchoProbe", "context_key": "e1", "derive": {"parameter_sweep": {"parameters": {"p": s1}, "variables": {"x": [1.0, 2.0], "y": [0.5]}}}},
                {"processor": "VEchoProbe", "context_key": "e2", "derive": {"parameter_sweep": {"parameters": {"p": s2}, "variables": {"x": [1.0, 2.0], "y": [0.5]}}}}]}}
            case2 = {"a": s1, "b": s2, "payload": "two_nodes"}
            col.count(case2, ["payload", "payload_two_sweep_nodes_one_processor"], True, key="payload2:" + s1 + "|" + s2)
            try:
                nodes = build_inspection_payload(cfg2)["pipeline_spec_canonical"]["nodes"]
                got2 = [n["preprocessor_metadata"]["derive"]["parameter_sweep"]["parameters_sig"]["p"] for n in nodes[1:3]]
            except Exception as exc:  # noqa: BLE001
                col.add("payload_signatures_unavailable", {"exc": type(exc).__name__}, case2, repr(exc)[:160])
                continue
            want2 = [normalize_expression_sig_v1(s1), normalize_expression_sig_v1(s2)]
            if got2 != want2:
                col.add("payload_signature_not_of_own_expression", {"declared": "two_nodes"}, case2, got2, want2)


def plan(tier: str, seed: int, scale: float = 1.0) -> List[Dict[str, Any]]:
    of = 16
    n_poly = 7 if tier == "quick" else 8
    specs = [{"kind": "poly", "n": n_poly, "shard": i, "of": of} for i in range(of)]
    specs += [{"kind": "ext", "n": 5 if tier == "quick" else 6, "shard": i, "of": 4} for i in range(4)]
    nr = int((1500 if tier == "quick" else 12000) * scale)
    specs += [{"kind": "random", "seed": seed * 100 + i, "n": nr, "third": "X" if i % 2 else "z"} for i in range(8 if tier == "quick" else 16)]
    nf = int((4000 if tier == "quick" else 40000) * scale)
    from .fuzz_expr import ensure_atheris

    ensure_atheris()
    specs += [{"kind": "fuzz", "seed": seed * 100 + 50 + i, "n": nf, "third": "X" if i % 2 else "z"} for i in range(2 if tier == "quick" else 12)]
    specs.append({"kind": "payload", "seed": seed, "n": int((400 if tier == "quick" else 4000) * scale)})
    return specs


def run_shard(spec: Dict[str, Any]) -> Dict[str, Any]:
    if spec["kind"] == "fuzz":
        from .fuzz_expr import run_child

        return run_child("c12", spec)
    col = Collector(max_hashes=3000000, hash_len=10)
    if spec["kind"] == "payload":
        payload_clause(col, spec["seed"], spec["n"])
        return col.result()
    cx = Ctx(col)
    cx.third = spec.get("third", "z")
    if spec["kind"] in ("poly", "ext"):
        T = enum_poly(spec["n"]) if spec["kind"] == "poly" else enum_ext(spec["n"])
        top = spec["n"]
        for size in sorted(T):
            for e in T[size]:
                if shard_of(e, spec["of"]) != spec["shard"]:
                    continue
                variants = [("mirror", mirror(e)), ("left", rebracket(e, False)), ("right", rebracket(e, True))]
                examine(cx, e, spec["kind"], variants, do_mut=size <= top - 1)
        col.extra["signature_buckets"] = len(cx.buckets)
        col.extra["signature_buckets_with_2plus_members"] = sum(1 for b in cx.buckets.values() if b["n"] >= 2)
    else:
        import hypothesis
        from hypothesis import HealthCheck, Phase, given, settings, strategies as st

        @hypothesis.seed(spec["seed"])
        @settings(max_examples=spec["n"], database=None, deadline=None, derandomize=False,
                  phases=[Phase.generate], suppress_health_check=list(HealthCheck))
        @given(random_strategy(spec.get("third", "z")), st.data())
        def run(e, data):
            variants = [("random_perm", permuted(e, data.draw)), ("random_perm", permuted(e, data.draw)),
                        ("mirror", mirror(e)), ("right", rebracket(e, True))]
            # variants must also be value-equal (guards the harness' own rewriter)
            examine(cx, e, "random", variants, do_mut=True)
            for _, v in variants:
                examine(cx, v, "random", [], do_mut=False)

        run()
    return col.result()


def replay(case: Dict[str, Any]) -> List[Dict[str, Any]]:
    from semantiva.metadata.semantic_id import normalize_expression_sig_v1 as sig

    out = []
    if case.get("payload"):
        col = Collector()
        import random as _r  # noqa: F401

        from semantiva.inspection import build_inspection_payload
        from semantiva.metadata.semantic_id import normalize_expression_sig_v1 as _sig

        from ..lib import observe

        observe.ensure_registered()
        if case["payload"] == "two_nodes":
            cfg2 = {"extensions": ["verif.lib.components"], "pipeline": {"nodes": [
                {"processor": "FloatDataSource"},
                {"processor": "VEchoProbe", "context_key": "e1", "derive": {"parameter_sweep": {"parameters": {"p": case["a"]}, "variables": {"x": [1.0, 2.0], "y": [0.5]}}}},
                {"processor": "VEchoProbe", "context_key": "e2", "derive": {"parameter_sweep": {"parameters": {"p": case["b"]}, "variables": {"x": [1.0, 2.0], "y": [0.5]}}}}]}}
            nodes = build_inspection_payload(cfg2)["pipeline_spec_canonical"]["nodes"]
            got2 = [n["preprocessor_metadata"]["derive"]["parameter_sweep"]["parameters_sig"]["p"] for n in nodes[1:3]]
            want2 = [_sig(case["a"]), _sig(case["b"])]
            if got2 != want2:
                out.append({"check": "payload_signature_not_of_own_expression", "features": {"declared": "two_nodes"}, "observed": got2, "expected": want2, "case": case})
            return out
        params = {k: (case["a"] if k == "p" else case["b"]) for k in case.get("order", ["p", "q"])}
        cfg = {"extensions": ["verif.lib.components"], "pipeline": {"nodes": [
            {"processor": "FloatDataSource"},
            {"processor": "VEchoProbe", "context_key": "e", "derive": {"parameter_sweep": {"parameters": params, "variables": {"x": [1.0, 2.0], "y": [0.5]}}}}]}}
        sigs = build_inspection_payload(cfg)["pipeline_spec_canonical"]["nodes"][1]["preprocessor_metadata"]["derive"]["parameter_sweep"]["parameters_sig"]
        want = {"p": _sig(case["a"]), "q": _sig(case["b"])}
        if sigs != want:
            out.append({"check": "payload_signature_not_of_own_expression", "features": {"declared": "".join(params)}, "observed": sigs, "expected": want, "case": case})
        return out
    a, b = case["a"], case["b"]
    sa, sb = sig(a), sig(b)
    third = "X" if ("X" in a or "X" in b) else "z"
    fa, fb = fingerprint(a, 3, third), fingerprint(b, 3, third)
    if sa == sb and fa != fb:
        out.append({"check": "same_signature_different_value", "features": {"fragment": case.get("fragment", "poly")},
                    "observed": sa, "expected": "different signatures", "case": case})
    if sa != sb and case.get("expect") == "equal":
        out.append({"check": "commuted_form_changes_signature", "features": {"rewrite": case.get("rewrite", "mirror")},
                    "observed": "differ", "expected": "equal", "case": case})
    if sa == sb and case.get("expect") == "different":
        out.append({"check": "mutation_keeps_signature", "features": {"mutation": case.get("mutation", "?")},
                    "observed": "equal", "expected": "different", "case": case})
    return out


def shrink_candidates(case):
    return iter(())  # cases are pairs of small expressions already


def label_requirements(tier: str) -> Dict[str, Any]:
    return {"payload": 200, "fuzz": 5000, "chained_comparison": 500, "case_differing_names": 200, "variant:mirror": 1000, "variant:random_perm": 500, "mutation:swap": 1000, "mutation:const": 1000,
            "mutation:var": 1000, "mutation:func": 100, "poly": 10000, "ext": 5000}
