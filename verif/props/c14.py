"""C14 — the in-memory transport delivers every message exactly once, in channel order, to matching subscriptions."""
from __future__ import annotations

import fnmatch
import itertools
from collections import Counter
from typing import Any, Dict, List, Optional, Tuple

from hypothesis import strategies as st

from ..core.campaign import run_campaign
from ..core.collect import Collector
from ..lib.sched import Scheduler, next_schedule

ID = "C14"
LEVEL = "model_checking"
RULE = ("schedules of real threads over the real transport code, owned by the harness at line granularity of in_memory.py "
        "(sys.settrace + cooperative-lock shim): tiny scenarios (2 publishers x 1 message to one new channel; 2 publishers to an "
        "existing channel; 1 publisher + 1 subscriber; 2 publishers + 1 wildcard subscriber) are enumerated EXHAUSTIVELY up "
        "to a preemption bound (2 quick / 3 thorough); larger scenarios (2-3 publishers x 1-3 messages over existing and new "
        "channels x 1-2 subscribers with exact / wildcard patterns) get Hypothesis-generated choice lists. After all threads "
        "finish the main thread drains. non-trivial = >= 1 preemption while a thread is inside publish or __iter__; "
        "distinct = (scenario, executed decision sequence)")
ASSUMPTIONS = [
    "granularity: one module, line events, one thread running at a time; switches between two bytecodes of one line or inside deque/dict C code are out of reach",
    "the module's `threading` name is replaced by a cooperative shim (Lock/RLock); other synchronisation primitives would bypass the scheduler",
    "the channel of a message is carried inside its data because Message has no channel field",
]

TINY = [
    {"name": "2pub_new_channel", "pre": [], "pubs": [[["jobs.a", 0]], [["jobs.a", 0]]], "subs": []},
    {"name": "2pub_existing_channel", "pre": ["jobs.a"], "pubs": [[["jobs.a", 0]], [["jobs.a", 0]]], "subs": []},
    {"name": "1pub_1sub_exact", "pre": [], "pubs": [[["jobs.a", 0], ["jobs.a", 1]]], "subs": ["jobs.a"]},
    {"name": "2pub_1sub_wildcard", "pre": ["jobs.b"], "pubs": [[["jobs.a", 0]], [["jobs.b", 0]]], "subs": ["jobs.*"]},
    {"name": "prefix_related_channels", "pre": ["jobs.1"], "pubs": [[["jobs.10", 0], ["jobs.1", 1]]], "subs": ["jobs.1"]},
    # a consumer that takes one message and leaves (the queue master's pattern): the rest stays deliverable
    {"name": "early_break_consumer", "pre": [], "pubs": [[["jobs.a", 0], ["jobs.a", 1], ["jobs.a", 2]]], "subs": [{"pat": "jobs.a", "take": 1}]},
    # fnmatch character classes; one channel is literally named like the pattern
    {"name": "char_class_pattern", "pre": ["jobs.a", "jobs.[ab]"], "pubs": [[["jobs.b", 0], ["jobs.c", 0]]], "subs": ["jobs.[ab]"]},
    # another thread closes the subscription while its consumer iterates (how a callback-style subscription is stopped)
    {"name": "close_from_other_thread", "pre": ["jobs.a"], "pubs": [[["jobs.a", 0], ["jobs.a", 1]]], "subs": ["jobs.a"], "closers": [0]},
    # a single-* pattern whose literal prefix and suffix overlap, and a channel that is exactly the overlap
    {"name": "star_pattern_overlap", "pre": ["jobs.cfg"], "pubs": [[["jobs.a.cfg", 0], ["jobs.cfg", 0]]], "subs": ["jobs.*.cfg"]},
    # more than 32 channels in the table when a publisher to an existing channel races with a draining subscriber
    {"name": "many_channels_existing", "pre": ["hot"] + [f"c.{i}" for i in range(34)], "pubs": [[["hot", 1]]], "subs": ["*"], "bound": 1, "cap": 1500},
    # two subscribers of one channel, three messages: a subscriber that still holds a drained deque meets the re-created channel
    {"name": "two_subs_one_channel_three_messages", "pre": ["jobs.a"], "pubs": [[["jobs.a", 0]], [["jobs.a", 0]]], "subs": ["jobs.a", "jobs.a"], "bound": 1, "cap": 2500},
    {"name": "2pub_two_new_channels", "pre": [], "pubs": [[["jobs.a", 0], ["jobs.b", 1]], [["jobs.b", 0], ["jobs.a", 1]]], "subs": []},
]


def run_schedule(scn: Dict[str, Any], choices: List[int]) -> Dict[str, Any]:
    import semantiva.execution.transport.in_memory as im

    sched = Scheduler(im.__file__, choices)
    real_threading = im.threading
    im.threading = sched.make_shim()
    try:
        transport = im.InMemorySemantivaTransport()
        for ch in scn.get("pre", []):
            transport.publish(ch, {"ch": ch, "pub": -1, "seq": 0}, {})
        received: List[List[Dict[str, Any]]] = [[] for _ in scn.get("subs", [])]
        published: List[Dict[str, Any]] = [{"ch": ch, "pub": -1, "seq": 0} for ch in scn.get("pre", [])]
        fns = []
        for pi, msgs in enumerate(scn["pubs"]):
            def pub(pi=pi, msgs=msgs):
                for ch, seq in msgs:
                    transport.publish(ch, {"ch": ch, "pub": pi, "seq": seq}, {})
            fns.append(pub)
            published += [{"ch": ch, "pub": pi, "seq": seq} for ch, seq in msgs]
        sub_objs = [transport.subscribe(_pat(spec)) for spec in scn.get("subs", [])]
        for si, spec in enumerate(scn.get("subs", [])):
            def sub(si=si, spec=spec):
                pat, take = _pat(spec), (None if isinstance(spec, str) else spec.get("take"))
                it = sub_objs[si]
                for msg in it:
                    received[si].append(msg.data)
                    if take is not None and len(received[si]) >= take:
                        break  # the consumer leaves early and closes its subscription
                it.close()
            fns.append(sub)
        for si in scn.get("closers", []):
            def closer(si=si):
                sub_objs[si].close()
            fns.append(closer)
        sched.run(fns)
        late: List[List[Dict[str, Any]]] = []
        drained = []
        if not sched.deadlock and not sched.errors:
            # sequential epilogue: a fresh subscription per pattern drains whatever still matches it, then "*" takes the rest
            for spec in scn.get("subs", []):
                late.append([m.data for m in transport.subscribe(_pat(spec))])
            drained = [m.data for m in transport.subscribe("*")]
    finally:
        im.threading = real_threading
    return {"sched": sched, "published": published, "received": received, "drained": drained, "late": late}


def _pat(spec: Any) -> str:
    return spec if isinstance(spec, str) else spec["pat"]


def _key(d: Dict[str, Any]) -> Tuple[str, int, int]:
    return (d["ch"], d["pub"], d["seq"])


def judge(scn: Dict[str, Any], res: Dict[str, Any], col: Collector, family: str) -> None:
    sched: Scheduler = res["sched"]
    executed = [d[1] for d in sched.decisions]
    case = {"scenario": scn, "choices": executed}
    nontriv = sched.preempt_inside >= 1
    labs = [family, "scenario:" + scn.get("name", "generated"), "preemptions:%d" % min(sched.preemptions, 4)]
    if sched.preempt_inside:
        labs.append("preemption_inside_publish_or_iter")
    col.count(case, labs, nontriv)
    feats0 = {"new_channel": any(ch not in scn.get("pre", []) for msgs in scn["pubs"] for ch, _ in msgs), "subscribers": len(scn.get("subs", []))}
    if sched.deadlock:
        col.add("deadlock", feats0, case, [t["state"] for t in sched.threads])
        return
    if sched.errors:
        col.add("exception_in_thread", dict(feats0, error=sched.errors[0].split(":")[1].strip() if ":" in sched.errors[0] else "?"), case, sched.errors)
        return
    got = Counter(_key(d) for lst in res["received"] + res.get("late", []) + [res["drained"]] for d in lst)
    want = Counter(_key(d) for d in res["published"])
    lost = want - got
    dup = got - want
    if lost:
        col.add("message_lost", feats0, case, sorted(lost.elements()), sorted(want.elements()))
    if dup:
        col.add("message_duplicated_or_invented", feats0, case, sorted(dup.elements()), sorted(want.elements()))
    for ci, lst in enumerate(res["received"] + [res["drained"]]):  # (late epilogue lists are sequential by construction)
        last: Dict[Tuple[str, int], int] = {}
        for d in lst:
            k = (d["ch"], d["pub"])
            if k in last and d["seq"] <= last[k]:
                col.add("channel_order_violated", dict(feats0, consumer="drain" if ci == len(res["received"]) else "subscriber"), case, lst)
                break
            last[k] = d["seq"]
    for si, spec in enumerate(scn.get("subs", [])):
        pat = _pat(spec)
        for d in res["received"][si] + (res["late"][si] if si < len(res.get("late", [])) else []):
            if not fnmatch.fnmatch(d["ch"], pat):
                col.add("subscription_yielded_non_matching_channel", dict(feats0, pattern=pat), case, d, pat)
                break
        # what the final "*" subscription still found must not match this pattern: the pattern's own (sequential,
        # exhaustive) subscription ran before it and "drains all matching messages"
        left = [d for d in res["drained"] if fnmatch.fnmatch(d["ch"], pat)]
        if left:
            col.add("matching_message_not_yielded_by_exhaustive_subscription", dict(feats0, pattern=pat), case, left, [])


def enumerate_scenario(scn: Dict[str, Any], bound: int, col: Collector, cap: int = 200000) -> int:
    choices: Optional[List[int]] = []
    n = 0
    while choices is not None and n < cap:
        res = run_schedule(scn, choices)
        judge(scn, res, col, "exhaustive")
        n += 1
        choices = next_schedule(res["sched"].decisions, bound)
    col.extra.setdefault("exhaustive_schedules", 0)
    col.extra["exhaustive_schedules"] += n
    col.extra.setdefault("exhausted_scenarios", []).append({"scenario": scn["name"], "bound": bound, "schedules": n, "complete": choices is None})
    return n


@st.composite
def c14_case(draw):
    chans = ["jobs.a", "jobs.b", "other.c", "jobs.ab", "jobs.a.cfg", "jobs.[ab]", "jobs.cfg"]
    pre = draw(st.lists(st.sampled_from(chans), max_size=2, unique=True))
    npubs = draw(st.integers(2, 3))
    pubs = []
    for _ in range(npubs):
        k = draw(st.integers(1, 3))
        seqs = {}
        msgs = []
        for _j in range(k):
            ch = draw(st.sampled_from(chans))
            seqs[ch] = seqs.get(ch, -1) + 1
            msgs.append([ch, seqs[ch]])
        pubs.append(msgs)
    subs = draw(st.lists(st.sampled_from(["jobs.a", "jobs.*", "*", "other.c", "*.b", "jobs.?", "jobs.a*", "jobs.*.cfg", "jobs.[ab]", "jobs.[!a]", "[jo]*"]), min_size=1, max_size=2))
    subs = [({"pat": p, "take": draw(st.integers(1, 2))} if draw(st.sampled_from([False, False, True])) else p) for p in subs]
    choices = draw(st.lists(st.integers(0, 3), max_size=60))
    # bias towards few preemptions: most decision points keep the current thread
    mask = draw(st.lists(st.integers(0, 5), min_size=len(choices), max_size=len(choices)))
    choices = [c if m == 0 else 0 for c, m in zip(choices, mask)]
    closers = [0] if draw(st.sampled_from([False, False, False, True])) else []
    return {"scenario": {"name": "generated", "pre": pre, "pubs": pubs, "subs": subs, "closers": closers}, "choices": choices}


def check_case(case: Dict[str, Any], col: Collector, family: str = "random") -> None:
    res = run_schedule(case["scenario"], case["choices"])
    judge(case["scenario"], res, col, family)


def plan(tier: str, seed: int, scale: float = 1.0) -> List[Dict[str, Any]]:
    bound = 2 if tier == "quick" else 3
    specs: List[Dict[str, Any]] = []
    for i, scn in enumerate(TINY):
        nthreads = len(scn["pubs"]) + len(scn["subs"]) + len(scn.get("closers", []))
        heavy = nthreads >= 3 or sum(len(m) for m in scn["pubs"]) >= 4
        specs.append({"kind": "exhaustive", "scenario": i, "bound": scn.get("bound", bound - 1 if heavy else bound), "timeout": 3000})
    nshards, n = (11, 600) if tier == "quick" else (27, 5000)
    specs += [{"kind": "random", "seed": seed * 8191 + i, "n": max(20, int(n * scale)), "timeout": 1500} for i in range(nshards)]
    return specs


def run_shard(spec: Dict[str, Any]) -> Dict[str, Any]:
    col = Collector(max_hashes=3000000, hash_len=12)
    if spec["kind"] == "exhaustive":
        enumerate_scenario(TINY[spec["scenario"]], spec["bound"], col, cap=TINY[spec["scenario"]].get("cap", 200000))
    else:
        run_campaign(c14_case(), lambda c: check_case(c, col), spec["n"], spec["seed"])
    res = col.result()
    return res


def finalize(m: Dict[str, Any]) -> List[Dict[str, Any]]:
    # model-checking style evidence keys
    m["extra"]["states"] = m["evaluations"]
    m["extra"]["transitions"] = m["evaluations"]
    m["extra"]["traces_validated_against_impl"] = m["evaluations"]
    return []


def replay(case: Dict[str, Any]) -> List[Dict[str, Any]]:
    col = Collector()
    check_case(case, col, "replay")
    return [{"check": b["check"], "features": b["features"], "observed": b["observed"], "expected": b["expected"],
             "case": b["case"]} for b in col.buckets.values()]


def valid(case: Any) -> bool:
    try:
        s = case["scenario"]
        return (isinstance(s["pubs"], list) and len(s["pubs"]) >= 1 and all(isinstance(m, list) and len(m) >= 1 for m in s["pubs"])
                and all(isinstance(x, list) and len(x) == 2 and isinstance(x[0], str) and isinstance(x[1], int) for m in s["pubs"] for x in m)
                and all(isinstance(c, int) and not isinstance(c, bool) and c >= 0 for c in case["choices"]) and all((isinstance(p, str) and p) or (isinstance(p, dict) and isinstance(p.get("pat"), str) and p["pat"] and isinstance(p.get("take"), int) and p["take"] >= 1) for p in s.get("subs", []))
                and all(isinstance(p, str) and p for p in s.get("pre", [])))
    except Exception:
        return False


def label_requirements(tier: str) -> Dict[str, Any]:
    return {"preemption_inside_publish_or_iter": 0.3, "exhaustive": 500, "random": 1000}
