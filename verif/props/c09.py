"""C09 — a run-space launch equals its independent runs and is linked by stable IDs."""
from __future__ import annotations

import copy
import json
import os
import random
import re
import shutil
import tempfile
from typing import Any, Dict, List, Optional, Tuple

import yaml
from hypothesis import strategies as st

from ..core.campaign import run_campaign
from ..core.collect import Collector
from ..lib import clidrv, gen, model as M, tracelib, yamlrw
from . import c08

ID = "C09"
LEVEL = "exploration"
RULE = ("Hypothesis-generated (pipeline, run_space) pairs written as YAML with a JSONL trace block: pipelines of 2..6 nodes whose "
        "parameters come from the run context (factor / addend / divisor / value), optional sweep node, sink path named from the "
        "run index by a template; run spaces of 1..2 blocks (inline lists and an optional CSV source) in both modes; a failing "
        "run (division by zero) at a generated index; file and directory trace output; launch-id options {explicit, idempotency "
        "key, generated}; attempts 1..3; a guarded cosmetic rewrite and a single-point mutation of the run_space block; the "
        "source file touched / edited. Each launch is compared with standalone executions of every planned run. non-trivial = "
        ">= 2 runs and (a failing run, or a source file, or a rewrite that changed the text); distinct = canonical JSON of the case")
ASSUMPTIONS = [
    "the plan (ordered run contexts) is computed by the independent reference expander of C08",
    "trace content of a run is compared after removing run id, timestamps, durations, sequence numbers and the run-space fields of pipeline_start",
    "the standalone run receives run i's context through --context k=v (values are YAML-parsed floats / ints / words)",
]


@st.composite
def c09_case(draw):
    n = draw(st.integers(1, 4))
    mids = draw(st.lists(st.sampled_from(["mul", "add", "div", "probe", "square", "sweep", "sweep_ctx"]), min_size=1, max_size=4))
    if mids.count("sweep_ctx") > 1:
        mids = [m for i, m in enumerate(mids) if m != "sweep_ctx" or i == mids.index("sweep_ctx")]
    fail_at = draw(st.sampled_from([None, None, 0, 1, 2, 3]))
    if fail_at is not None and "div" not in mids:
        mids.append("div")
    second = draw(st.sampled_from([None, "inline", "csv"]))
    return {"n": n, "mids": mids, "fail_at": fail_at, "second": second,
            "second_mode": draw(st.sampled_from(["by_position", "combinatorial"])),
            "combine": draw(st.sampled_from(["combinatorial", "by_position"])),
            "out": draw(st.sampled_from(["file", "dir"])),
            "launch": draw(st.sampled_from(["explicit", "idem", "generated"])), "attempt": draw(st.integers(1, 3)),
            "rw": {"seed": draw(st.integers(0, 2 ** 31)), "kinds": draw(st.sampled_from(
                [["permute_keys"], ["flow"], ["permute_keys", "comments"], ["float_spelling"], ["quote_strings"], ["block", "indent"], ["anchors"]]))},
            "mut": draw(st.sampled_from(["value", "mode", "max_runs", "combine", "add_key", "drop_value"])),
            "value_src": draw(st.sampled_from(["config", "context"])), "unicode": draw(st.integers(0, 3)) == 0,
            "eq_typed": draw(st.sampled_from([False, False, True])), "csv_select_rename": draw(st.sampled_from([False, True]))}


def materialise(case: Dict[str, Any]) -> Dict[str, Any]:
    nodes: List[Dict[str, Any]] = []
    keys: List[str] = ["idx"]
    if case["value_src"] == "context":
        nodes.append({"p": "FloatValueDataSource"})
        keys.append("value")
    else:
        nodes.append({"p": "FloatValueDataSource", "params": {"value": 6.0}})
    for m in case["mids"]:
        if m == "mul":
            nodes.append({"p": "FloatMultiplyOperation"})
            keys.append("factor")
        elif m == "add":
            nodes.append({"p": "FloatAddOperation"})
            keys.append("addend")
        elif m == "div":
            nodes.append({"p": "FloatDivideOperation"})
            keys.append("divisor")
        elif m == "probe":
            nodes.append({"p": "FloatCollectValueProbe", "context_key": "c"})
        elif m == "square":
            nodes.append({"p": "FloatSquareOperation"})
        elif m == "sweep_ctx":
            # a sweep over a sequence taken from the context: the run space gives every run its own list
            nodes.append({"p": "FloatAddOperation", "sweep": {"vars": {"t": {"kind": "ctx", "key": "seq"}}, "params": {"addend": "2 * t"},
                                                               "mode": "combinatorial", "broadcast": False, "collection": "FloatDataCollection"}})
            nodes.append({"p": "FloatCollectionSumOperation"})
            keys.append("seq")
        elif m == "sweep":
            nodes.append({"p": "FloatAddOperation", "sweep": {"vars": {"t": {"kind": "values", "values": [1.0, 2.0]}}, "params": {"addend": "2 * t"},
                                                               "mode": "combinatorial", "broadcast": False, "collection": "FloatDataCollection"}})
            nodes.append({"p": "FloatCollectionSumOperation"})
    if case.get("eq_typed"):
        # no per-run index and no context-writing template: the run contexts themselves may then compare equal
        nodes.append({"p": "FloatTxtFileSaver", "params": {"path": "out_None.txt"}})
        keys = [k for k in keys if k != "idx"] or ["factor"]
        if keys == ["factor"] and not any(n["p"] == "FloatMultiplyOperation" for n in nodes):
            nodes.insert(1, {"p": "FloatMultiplyOperation"})
    else:
        nodes.append({"p": 'template:"out_{idx}.txt":path'})
        nodes.append({"p": "FloatTxtFileSaver"})
    keys = list(dict.fromkeys(keys))
    n = case["n"]
    second_keys = [k for k in keys if k in ("factor", "addend")][:1] if (case["second"] and not case.get("eq_typed")) else []
    first_keys = [k for k in keys if k not in second_keys]
    fail_at = case["fail_at"] if (case["fail_at"] is not None and "divisor" in keys and case["fail_at"] < n) else None
    vals = {"idx": list(range(n)), "value": [float(3 + i) for i in range(n)], "factor": [2.0 + i for i in range(n)],
            "addend": [0.5 + i for i in range(n)], "seq": [[1.5 + i + j for j in range(1 + (i + 1) % 3)] for i in range(n)], "divisor": [(0.0 if fail_at == i else 2.0 + i) for i in range(n)]}
    if case.get("eq_typed"):
        # consecutive runs whose contexts compare equal (1 == 1.0 == True) but are different values
        vals["factor"] = [1, 1.0, True, 3][:n]
        vals["addend"] = [0, 0.0, False, 2][:n]
    blocks: List[Dict[str, Any]] = [{"mode": "by_position", "context": {k: vals[k] for k in first_keys}}]
    if case.get("unicode"):
        # an extra (unused) context key with non-ASCII text: the spec ID must still agree between inspect and the trace
        # (precomposed, decomposed and compatibility forms are different texts: e + U+0301, ANGSTROM SIGN, a CJK compatibility ideograph)
        blocks[0]["context"]["label"] = ["é%d-日本-ß-e\u0301-\u212b-\ufa10" % i for i in range(n)]
    files: List[Dict[str, Any]] = []
    combine = "combinatorial"
    if second_keys:
        k = second_keys[0]
        m2 = n if case["combine"] == "by_position" else 2
        col = [1.5 + j for j in range(m2)]
        combine = case["combine"]
        if case["second"] == "csv":
            if case.get("csv_select_rename"):
                # the file has a second column that is not selected; the rename map also names that column
                files.append({"format": "csv", "shape": "rows", "columns": {k: col, "other": [float(j) for j in range(m2)]}, "scalar_column": None, "name": "src0.csv"})
                blocks.append({"mode": case["second_mode"], "context": {}, "source": {"format": "csv", "path": "src0.csv", "select": [k], "rename": {"other": "unused_name"}, "mode": "by_position"}})
            else:
                files.append({"format": "csv", "shape": "rows", "columns": {k: col}, "scalar_column": None, "name": "src0.csv"})
                blocks.append({"mode": case["second_mode"], "context": {}, "source": {"format": "csv", "path": "src0.csv", "select": None, "rename": {}, "mode": "by_position"}})
        else:
            blocks.append({"mode": case["second_mode"], "context": {k: col}, "source": None})
    spec = {"combine": combine, "max_runs": 1000, "blocks": blocks, "files": files, "entry": "yaml"}
    ref = c08.reference(spec)
    return {"nodes": nodes, "spec": spec, "plan": ref.get("runs") if ref["ok"] else None, "fail_at": fail_at, "keys": keys}


def launch_args(case: Dict[str, Any], key: str = "k1") -> List[str]:
    a = ["--run-space-attempt", str(case["attempt"])]
    if case["launch"] == "explicit":
        a += ["--run-space-launch-id", "launch-ABC_123"]
    elif case["launch"] == "idem":
        a += ["--run-space-idempotency-key", key]
    return a


def read_traces(d: str, out: str) -> List[Dict[str, Any]]:
    p = os.path.join(d, out)
    recs: List[Dict[str, Any]] = []
    if os.path.isfile(p):
        recs = tracelib.read_jsonl(p)["records"]
    elif os.path.isdir(p):
        for f in sorted(os.listdir(p)):
            recs += tracelib.read_jsonl(os.path.join(p, f))["records"]
    return recs


RS_FIELDS = ("run_space_launch_id", "run_space_attempt", "run_space_index", "run_space_context")


def norm_run(recs: List[Dict[str, Any]]) -> List[Dict[str, Any]]:
    out = []
    for r in recs:
        r = tracelib.normalise_record(r)
        for f in RS_FIELDS:
            r.pop(f, None)
        out.append(r)
    return out


def do_launch(case, mat, d: str, extra: List[str], cfg_text: Optional[str] = None) -> Dict[str, Any]:
    out = "trace.ser.jsonl" if case["out"] == "file" else "traces"
    cfg = clidrv.config_mapping(mat["nodes"], run_space=c08.to_block(mat["spec"]), trace={"driver": "jsonl", "output_path": out})
    with open(os.path.join(d, "p.yaml"), "w") as fh:
        fh.write(cfg_text if cfg_text is not None else yaml.safe_dump(cfg, sort_keys=False))
    for f in mat["spec"]["files"]:
        if not os.path.exists(os.path.join(d, f["name"])):
            c08.write_file(f, d)
    res = clidrv.run_inprocess(["run", "p.yaml", "-q"] + extra, d)
    res["records"] = read_traces(d, out)
    res["cfg"] = cfg
    res["outs"] = {f: open(os.path.join(d, f)).read() for f in sorted(os.listdir(d)) if f.startswith("out_")}
    return res


def _clear_traces(d: str) -> None:
    shutil.rmtree(os.path.join(d, "traces"), ignore_errors=True)
    if os.path.exists(os.path.join(d, "trace.ser.jsonl")):
        os.remove(os.path.join(d, "trace.ser.jsonl"))


def inspect_spec_id(d: str) -> Optional[str]:
    r = clidrv.run_inprocess(["inspect", "p.yaml"], d)
    m = re.search(r"Run-Space Config ID:\s*(\S+)", r["stdout"])
    return m.group(1) if m and m.group(1).lower() != "none" else None


def check_case(case: Dict[str, Any], col: Collector, workroot: str = ".") -> None:
    mat = materialise(case)
    if mat["plan"] is None:
        col.exclude(1, "plan_rejected_by_reference")
        return
    plan: List[Dict[str, Any]] = mat["plan"]
    fail_at = None
    if mat["fail_at"] is not None:
        fail_at = next((i for i, r in enumerate(plan) if r.get("divisor") == 0.0), None)
    root = tempfile.mkdtemp(prefix="c09-", dir=workroot)
    rep = dict(case)
    try:
        d = os.path.join(root, "launch")
        os.makedirs(d)
        L = do_launch(case, mat, d, launch_args(case))
        recs = L["records"]
        labs = ["runs:%d" % min(len(plan), 5), "out:" + case["out"], "launch:" + case["launch"], "attempt:%d" % case["attempt"]]
        if fail_at is not None:
            labs.append("failing_run")
        if mat["spec"]["files"]:
            labs.append("source_file")
        if any(m == "sweep" for m in case["mids"]):
            labs.append("sweep")
        if case.get("eq_typed"):
            labs.append("equal_but_differently_typed_run_contexts")
        if any(m == "sweep_ctx" for m in case["mids"]):
            labs.append("sweep_from_context_per_run")
        if case.get("unicode"):
            labs.append("non_ascii_values")
        feats0 = {"out": case["out"]}

        def bad(check, feats=None, observed=None, expected=None):
            col.add(check, dict(feats0, **(feats or {})), rep, observed, expected)

        # ---- exit code / lifecycle -------------------------------------------------------------------
        want_code = 4 if fail_at is not None else 0
        if L["exc"] is not None or L["code"] != want_code:
            bad("launch_exit_code", {"want": want_code}, {"code": L["code"], "exc": repr(L["exc"])[:100], "stderr": L["stderr"][-200:]}, want_code)
        starts = [r for r in recs if r.get("record_type") == "run_space_start"]
        ends = [r for r in recs if r.get("record_type") == "run_space_end"]
        pstarts = [r for r in recs if r.get("record_type") == "pipeline_start"]
        completed = fail_at if fail_at is not None else len(plan)
        started = min(len(plan), completed + (1 if fail_at is not None else 0))
        if len(starts) != 1 or len(ends) != 1:
            bad("run_space_bracket", {"starts": len(starts), "ends": len(ends)}, [r.get("record_type") for r in recs][:12], "one start, one end")
        else:
            s, e = starts[0], ends[0]
            if s.get("run_space_planned_run_count") != len(plan) or s.get("run_space_total_runs") != len(plan):
                bad("planned_run_count", {}, {k: s.get(k) for k in ("run_space_planned_run_count", "run_space_total_runs")}, len(plan))
            summ = e.get("summary") or {}
            if summ.get("planned_runs") != len(plan) or summ.get("completed_runs") != completed:
                bad("run_space_end_counts", {"failing": fail_at is not None}, summ, {"planned_runs": len(plan), "completed_runs": completed})
            if (fail_at is not None) != (summ.get("status") == "failed"):
                bad("run_space_end_status", {}, summ, "failed" if fail_at is not None else "no failure status")
            if e.get("run_space_launch_id") != s.get("run_space_launch_id") or e.get("run_space_attempt") != s.get("run_space_attempt"):
                bad("run_space_end_not_linked", {}, e, s)
        if len(pstarts) != started:
            bad("pipeline_start_count", {"more": len(pstarts) > started}, len(pstarts), started)
        launch_id = starts[0].get("run_space_launch_id") if starts else None
        for i, ps in enumerate(sorted(pstarts, key=lambda r: r.get("run_space_index", -1))):
            want = {"run_space_launch_id": launch_id, "run_space_attempt": case["attempt"], "run_space_index": i,
                    "run_space_context": plan[i] if i < len(plan) else None}
            got = {k: ps.get(k) for k in want}
            if not (got["run_space_launch_id"] == want["run_space_launch_id"] and got["run_space_attempt"] == want["run_space_attempt"]
                    and got["run_space_index"] == i and c08.typed_equal(got["run_space_context"], want["run_space_context"])):
                bad("pipeline_start_run_space_fields", {"field": next(k for k in want if not c08.typed_equal(got[k], want[k]))}, got, want)
                break
        if case["launch"] == "explicit" and launch_id != "launch-ABC_123":
            bad("explicit_launch_id_not_verbatim", {}, launch_id, "launch-ABC_123")
        if starts and starts[0].get("run_space_attempt") != case["attempt"]:
            bad("attempt_not_recorded", {}, starts[0].get("run_space_attempt"), case["attempt"])
        # ---- every run equals its standalone execution ---------------------------------------------------
        by_run: Dict[str, List[Dict[str, Any]]] = {}
        for r in recs:
            rid = r.get("run_id") if r.get("record_type") in ("pipeline_start", "pipeline_end") else (r.get("identity") or {}).get("run_id") if r.get("record_type") == "ser" else None
            if rid:
                by_run.setdefault(rid, []).append(r)
        ordered = sorted(by_run.values(), key=lambda rs: next((x.get("run_space_index", 99) for x in rs if x.get("record_type") == "pipeline_start"), 99))
        for i in range(started):
            sd = os.path.join(root, f"solo{i}")
            os.makedirs(sd)
            cfg1 = clidrv.config_mapping(mat["nodes"], trace={"driver": "jsonl", "output_path": "trace.ser.jsonl"})
            clidrv.write_yaml(os.path.join(sd, "p.yaml"), cfg1)
            ctx_args = []
            for k, v in plan[i].items():
                ctx_args += ["--context", f"{k}={json.dumps(v)}"]
            S = clidrv.run_inprocess(["run", "p.yaml", "-q"] + ctx_args, sd)
            solo = norm_run(read_traces(sd, "trace.ser.jsonl"))
            mine = norm_run(ordered[i]) if i < len(ordered) else []
            name = f"out_{plan[i].get('idx')}.txt"
            solo_out = open(os.path.join(sd, name)).read() if os.path.exists(os.path.join(sd, name)) else None
            last_with_idx = max(j for j in range(started) if plan[j].get("idx") == plan[i].get("idx"))
            shared_file = bool(case.get("eq_typed")) and fail_at is not None  # one fixed file: a failing run leaves the previous run's output
            if i == last_with_idx and not shared_file and L["outs"].get(name) != solo_out:  # a later run with the same idx overwrites the file
                bad("run_result_differs_from_standalone", {"failing_run": i == fail_at}, {"launch": L["outs"].get(name), "index": i}, solo_out)
            if mine != solo:
                fields = "record_count" if len(mine) != len(solo) else next(
                    (",".join(sorted(k for k in set(a) | set(b) if a.get(k) != b.get(k))[:3]) + "@" + str(a.get("record_type")) for a, b in zip(mine, solo) if a != b), "?")
                bad("run_trace_differs_from_standalone", {"fields": fields, "first_run": i == 0, "sweep": "sweep" in labs}, {"index": i}, None)
        for i in range(started, len(plan)):
            if f"out_{plan[i].get('idx')}.txt" in L["outs"] and not any(p.get("idx") == plan[i].get("idx") for p in plan[:started]):
                bad("run_after_failed_run_executed", {}, sorted(L["outs"]), None)
        # ---- spec id: inspect vs trace, rewrites, mutations ------------------------------------------------
        trace_spec = starts[0].get("run_space_spec_id") if starts else None
        insp_spec = inspect_spec_id(d)
        if starts and insp_spec != trace_spec:
            bad("spec_id_inspect_differs_from_trace", {}, insp_spec, trace_spec)
        # the same file inspected from another working directory (its parent): the ID belongs to the file, not to the caller's cwd
        r_other = clidrv.run_inprocess(["inspect", os.path.join(os.path.basename(d), "p.yaml")], os.path.dirname(d))
        m_other = re.search(r"Run-Space Config ID:\s*(\S+)", r_other["stdout"])
        insp_other = m_other.group(1) if m_other and m_other.group(1).lower() != "none" else None
        if starts and insp_other != trace_spec:
            bad("spec_id_inspect_differs_from_trace", {"inspect_cwd": "parent_directory", "source_file": bool(mat["spec"]["files"])}, insp_other, trace_spec)
        rnd = random.Random(case["rw"]["seed"])
        rw = yamlrw.rewrite(L["cfg"], rnd, list(case["rw"]["kinds"]))
        changed = False
        if rw is not None:
            text, kinds = rw
            changed = text != yaml.safe_dump(L["cfg"], sort_keys=False)
            d2 = d  # same directory: source-file URIs (part of the inputs id) stay the same
            _clear_traces(d)
            L2 = do_launch(case, mat, d2, launch_args(case), cfg_text=text)
            s2 = [r for r in L2["records"] if r.get("record_type") == "run_space_start"]
            if s2 and starts and s2[0].get("run_space_spec_id") != trace_spec:
                bad("spec_id_changes_under_cosmetic_rewrite", {"kinds": "+".join(sorted(kinds)), "path": "trace"}, s2[0].get("run_space_spec_id"), trace_spec)
            i2 = inspect_spec_id(d2)
            clidrv.write_yaml(os.path.join(d, "p.yaml"), L["cfg"])
            if i2 != insp_spec:
                bad("spec_id_changes_under_cosmetic_rewrite", {"kinds": "+".join(sorted(kinds)), "path": "inspect"}, i2, insp_spec)
            labs.append("rewrite:" + "+".join(sorted(kinds)))
            # idempotency: the same key gives the same launch id (also across the rewrite), another key another id
            if case["launch"] == "idem" and s2 and starts:
                if s2[0].get("run_space_launch_id") != launch_id:
                    bad("idempotent_launch_id_not_reproducible", {}, s2[0].get("run_space_launch_id"), launch_id)
            if case["launch"] == "generated" and s2 and starts and s2[0].get("run_space_launch_id") == launch_id:
                bad("generated_launch_ids_collide", {}, launch_id, "different ids")
        if case["launch"] == "idem":
            d3 = os.path.join(root, "otherkey")
            os.makedirs(d3)
            L3 = do_launch(case, mat, d3, launch_args(case, key="k2"))
            s3 = [r for r in L3["records"] if r.get("record_type") == "run_space_start"]
            if s3 and starts and s3[0].get("run_space_launch_id") == launch_id:
                bad("different_idempotency_key_same_launch_id", {}, launch_id, "different ids")
        # mutation of the plan -> different spec id (inspect and trace)
        mspec = copy.deepcopy(mat["spec"])
        b0 = mspec["blocks"][0]
        k0 = sorted(b0["context"])[0]
        mut = case["mut"]
        if mut == "value":
            lastv = b0["context"][k0][-1]
            b0["context"][k0] = list(b0["context"][k0][:-1]) + [(lastv + [100.0]) if isinstance(lastv, list) else (lastv + "x") if isinstance(lastv, str) else (lastv + 100)]
        elif mut == "mode" and len(b0["context"]) >= 1:
            b0["mode"] = "combinatorial"
        elif mut == "max_runs":
            mspec["max_runs"] = 999
        elif mut == "combine":
            mspec["combine"] = "by_position" if mspec["combine"] == "combinatorial" else "combinatorial"
        elif mut == "add_key":
            b0["context"]["zz_extra"] = list(range(len(b0["context"][k0])))
        else:
            for k in b0["context"]:
                b0["context"][k] = b0["context"][k][:-1] if len(b0["context"][k]) > 1 else b0["context"][k] + b0["context"][k]
        d4 = os.path.join(root, "mutant")
        os.makedirs(d4)
        mmat = dict(mat, spec=mspec)
        cfgm = clidrv.config_mapping(mat["nodes"], run_space=c08.to_block(mspec), trace={"driver": "jsonl", "output_path": "t.ser.jsonl"})
        clidrv.write_yaml(os.path.join(d4, "p.yaml"), cfgm)
        im = inspect_spec_id(d4)
        labs.append("mutation:" + mut)
        if im == insp_spec:
            bad("spec_id_unchanged_by_plan_mutation", {"mutation": mut, "path": "inspect"}, im, "a different spec id")
        # ---- inputs id changes exactly when file content changes --------------------------------------------
        if mat["spec"]["files"] and starts:
            inputs0 = starts[0].get("run_space_inputs_id")
            fpath = os.path.join(d, mat["spec"]["files"][0]["name"])
            os.utime(fpath, (1, 1))
            _clear_traces(d)
            L5 = do_launch(case, mat, d, launch_args(case))
            s5 = [r for r in L5["records"] if r.get("record_type") == "run_space_start"]
            if s5 and s5[0].get("run_space_inputs_id") != inputs0:
                bad("inputs_id_changes_without_content_change", {}, s5[0].get("run_space_inputs_id"), inputs0)
            with open(fpath, "a") as fh:
                fh.write("\n")  # content changes (trailing blank line), the plan does not
            _clear_traces(d)
            L6 = do_launch(case, mat, d, launch_args(case))
            s6 = [r for r in L6["records"] if r.get("record_type") == "run_space_start"]
            if s6:
                if s6[0].get("run_space_inputs_id") == inputs0:
                    bad("inputs_id_unchanged_after_content_change", {}, inputs0, "a different inputs id")
                if s6[0].get("run_space_spec_id") != trace_spec:
                    bad("spec_id_changes_with_file_content", {}, s6[0].get("run_space_spec_id"), trace_spec)
            if case["n"] % 2 == 0:
                # a large file (> 1 MiB of trailing blank lines) edited in its last bytes with its size kept:
                # the content changed, the plan did not
                with open(fpath, "a") as fh:
                    fh.write("\n" * ((1 << 20) + 4096))
                _clear_traces(d)
                L7 = do_launch(case, mat, d, launch_args(case))
                s7 = [r for r in L7["records"] if r.get("record_type") == "run_space_start"]
                size7 = os.path.getsize(fpath)
                with open(fpath, "r+b") as fh:
                    fh.seek(-2, os.SEEK_END)
                    fh.write(b"\r\n")
                _clear_traces(d)
                L8 = do_launch(case, mat, d, launch_args(case))
                s8 = [r for r in L8["records"] if r.get("record_type") == "run_space_start"]
                labs.append("large_file_same_size_edit")
                if s7 and s8 and os.path.getsize(fpath) == size7:
                    if s8[0].get("run_space_inputs_id") == s7[0].get("run_space_inputs_id"):
                        bad("inputs_id_unchanged_after_content_change", {"edit": "same_size_tail_of_large_file"}, s7[0].get("run_space_inputs_id"), "a different inputs id")
                    if s8[0].get("planned_run_count") != s7[0].get("planned_run_count"):
                        labs.append("guard:tail_edit_changed_plan")
        col.count(rep, labs, len(plan) >= 2 and (fail_at is not None or bool(mat["spec"]["files"]) or changed))
    finally:
        shutil.rmtree(root, ignore_errors=True)


def plan(tier: str, seed: int, scale: float = 1.0) -> List[Dict[str, Any]]:
    nshards, n = (16, 60) if tier == "quick" else (64, 200)
    return [{"seed": seed * 6703 + i, "n": max(4, int(n * scale)), "timeout": 1500} for i in range(nshards)]


def run_shard(spec: Dict[str, Any]) -> Dict[str, Any]:
    col = Collector()
    run_campaign(c09_case(), lambda c: check_case(c, col, spec.get("workdir", ".")), spec["n"], spec["seed"])
    return col.result()


def replay(case: Dict[str, Any]) -> List[Dict[str, Any]]:
    col = Collector()
    check_case(case, col)
    return [{"check": b["check"], "features": b["features"], "observed": b["observed"], "expected": b["expected"],
             "case": b["case"]} for b in col.buckets.values()]


def valid(case: Any) -> bool:
    try:
        return 1 <= case["n"] <= 4 and all(m in ("mul", "add", "div", "probe", "square", "sweep", "sweep_ctx") for m in case["mids"]) and len(case["mids"]) >= 1 \
            and case["second"] in (None, "inline", "csv") and case["out"] in ("file", "dir") and case["launch"] in ("explicit", "idem", "generated") \
            and 1 <= case["attempt"] <= 3 and case["combine"] in ("combinatorial", "by_position") and case["second_mode"] in ("combinatorial", "by_position") \
            and (case["fail_at"] is None or ("div" in case["mids"] and 0 <= case["fail_at"] <= 3)) and case["value_src"] in ("config", "context") \
            and case["mut"] in ("value", "mode", "max_runs", "combine", "add_key", "drop_value") and isinstance(case["rw"]["seed"], int) \
            and all(k in yamlrw.REWRITE_KINDS for k in case["rw"]["kinds"])
    except Exception:
        return False


def shrink_candidates(case):
    for i in range(len(case["mids"])):
        if len(case["mids"]) > 1:
            c = copy.deepcopy(case)
            del c["mids"][i]
            if c["fail_at"] is not None and "div" not in c["mids"]:
                continue
            yield c
    if case["n"] > 1:
        yield dict(copy.deepcopy(case), n=case["n"] - 1)
    if case["second"]:
        yield dict(copy.deepcopy(case), second=None)
    if case["fail_at"] is not None:
        yield dict(copy.deepcopy(case), fail_at=None)
    if case["attempt"] != 1:
        yield dict(copy.deepcopy(case), attempt=1)
    if case["out"] != "file":
        yield dict(copy.deepcopy(case), out="file")


def label_requirements(tier: str) -> Dict[str, Any]:
    return {"failing_run": 0.1, "source_file": 0.05, "out:file": 0.3, "out:dir": 0.3, "launch:explicit": 0.2, "launch:idem": 0.2,
            "launch:generated": 0.2, "sweep": 0.1, "sweep_from_context_per_run": 0.05, "non_ascii_values": 0.1}
