"""Fresh-interpreter baseline for C10: run one case traced, print the normalised records as JSON on stdout."""
from __future__ import annotations

import json
import logging
import os
import sys
import tempfile


def main() -> None:
    logging.disable(logging.CRITICAL)
    import warnings

    warnings.simplefilter("ignore")
    spec = json.load(sys.stdin)
    from verif.lib import tracelib

    d = tempfile.mkdtemp(prefix="c10child-", dir=spec.get("workdir") or None)
    os.chdir(d)
    r = tracelib.run_traced(spec["a"], spec["detail"], "file", d)
    recs = r["traces"][0]["records"] if r["traces"] else []
    sys.stdout.write("\n@@RESULT@@" + json.dumps({"ok": bool(r.get("ok")), "records": [tracelib.normalise_record(x) for x in recs]}, default=repr))


if __name__ == "__main__":
    main()
