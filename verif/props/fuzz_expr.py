"""Coverage-guided campaigns (atheris / libFuzzer) over expression text for C11 and C12.

Run as a child of a shard:  python -m verif.props.fuzz_expr <c11|c12> <seed> <runs> <out.json>

The fuzzer's bytes are decoded into structure before they reach the code under test (token sequences for C11,
expression trees for C12) and the property's own oracle (verif.props.c11.check_source / verif.props.c12.examine)
runs inside the target.  Discrepancies are collected, not raised, so one campaign reports every bucket it meets.
libFuzzer never returns from Fuzz(); the target writes the collector and leaves with os._exit after <runs> inputs.
Coverage feedback comes from semantiva.utils.safe_eval / semantiva.metadata.semantic_id and from the decoders here.
"""
from __future__ import annotations

import json
import logging
import os
import sys
from typing import Any, List

TOKENS = [
    "x", "y", "u", "abs", "min", "max", "round", "float", "int", "str", "bool", "open", "getattr", "__import__", "type", "len",
    "(", ")", "[", "]", "{", "}", ",", ":", ".", "=", ":=", "*", "**", "+", "-", "/", "//", "%", "@", "<<", "&", "|", "^", "~",
    "<", "<=", "==", "!=", " is ", " in ", " not ", " and ", " or ", " if ", " else ", " for ", " lambda ", " await ", " yield ",
    "0", "1", "2", "0.5", "1e2", "'a'", "f'{x}'", "b'a'", "None", "True", "...", "ndigits", "object", "__class__", "real", "os",
    "1j", "-", "(", ")", "x", "y", ",",
]


def _write(out: str, col) -> None:
    with open(out, "w") as fh:
        json.dump(col.result(), fh, default=repr)
    sys.stdout.flush()
    os._exit(0)


def ensure_atheris() -> None:
    """Install atheris from the offline wheelhouse into /verif/.deps when MANIFEST.setup_cmd has not done so (called from plan())."""
    import subprocess

    root = os.path.dirname(os.path.dirname(os.path.dirname(os.path.abspath(__file__))))
    deps = os.path.join(root, ".deps")
    if os.path.isdir(os.path.join(deps, "atheris")):
        return
    subprocess.run([sys.executable, "-m", "pip", "install", "--no-index", "--find-links", "/opt/veriftools/wheels", "--target", deps, "atheris"],
                   stdout=subprocess.DEVNULL, stderr=subprocess.DEVNULL)


def run_child(mode: str, spec: Any) -> Any:
    """Called from a shard: run one campaign in its own interpreter (libFuzzer owns the process) and return its result."""
    import shutil
    import subprocess
    import tempfile

    root = os.path.dirname(os.path.dirname(os.path.dirname(os.path.abspath(__file__))))
    deps = os.path.join(root, ".deps")
    env = dict(os.environ)
    env["PYTHONPATH"] = os.pathsep.join([env.get("PYTHONPATH", ""), deps])
    work = tempfile.mkdtemp(prefix="fuzz-", dir=spec.get("workdir") or None)
    out = os.path.join(work, "result.json")
    try:
        p = subprocess.run([sys.executable, "-m", "verif.props.fuzz_expr", mode, str(spec["seed"]), str(spec["n"]), out],
                           env=env, stdout=subprocess.PIPE, stderr=subprocess.STDOUT, text=True)
        if not os.path.exists(out):
            raise RuntimeError("fuzz campaign left no result (atheris missing? run MANIFEST.setup_cmd): " + p.stdout[-1500:])
        with open(out) as fh:
            return json.load(fh)
    finally:
        shutil.rmtree(work, ignore_errors=True)


def main(argv: List[str]) -> None:
    mode, seed, runs, out = argv[1], int(argv[2]), int(argv[3]), argv[4]
    logging.disable(logging.CRITICAL)
    import warnings

    warnings.simplefilter("ignore")
    import atheris

    from verif.core.collect import Collector

    with atheris.instrument_imports(include=["semantiva.utils.safe_eval", "semantiva.metadata.semantic_id"]):
        from semantiva.metadata.semantic_id import normalize_expression_sig_v1  # noqa: F401
        from semantiva.utils.safe_eval import ExpressionError, ExpressionEvaluator

    col = Collector(max_hashes=2000000, hash_len=10)
    state = {"n": 0}

    if mode == "c11":
        from verif.props import c11

        audit = c11.Audit()
        ev = ExpressionEvaluator()

        @atheris.instrument_func
        def decode(data: bytes) -> str:
            return "".join(TOKENS[b % len(TOKENS)] for b in data[:48])

        def one(data: bytes) -> None:
            if state["n"] >= runs:
                _write(out, col)
            state["n"] += 1
            src = decode(data)
            if not src.strip() or src.count("**") > 2 or "<<" in src and "**" in src:
                col.labels["fuzz_skipped_expensive_or_empty"] += 1
                return
            c11.check_source(src, "fuzz", ev, ExpressionError, audit, col)

    else:
        from verif.props import c12

        cx = c12.Ctx(col)
        third = "X" if seed % 2 else "z"
        cx.third = third
        LEAVES = [("v", "x"), ("v", "y"), ("v", third), ("c", 0), ("c", 1), ("c", 2), ("c", -1), ("c", 3),
                  ("c", 2 ** 53), ("c", 2 ** 53 + 1), ("c", 10 ** 30 + 7)]
        BIN = ["+", "*", "+", "*", "-", "//", "%", "<", "<=", ">", ">=", "==", "!="]

        @atheris.instrument_func
        def tree(it, depth: int):
            b = next(it, 0)
            if depth >= 5 or b < 96:
                return LEAVES[b % len(LEAVES)]
            k = b % 10
            if k < 5:
                return ("b", BIN[next(it, 0) % len(BIN)], tree(it, depth + 1), tree(it, depth + 1))
            if k == 5:
                return ("b", "**", tree(it, depth + 1), ("c", next(it, 0) % 4))
            if k == 6:
                return ("u", tree(it, depth + 1))
            if k == 7:
                return ("f", "abs", tree(it, depth + 1))
            if k == 8:
                return ("f", ("min", "max")[next(it, 0) % 2], tree(it, depth + 1), tree(it, depth + 1))
            if next(it, 0) % 2:
                ops = ["<", "<=", ">", ">=", "==", "!="]
                return ("cmp", ops[next(it, 0) % 6], ops[next(it, 0) % 6], tree(it, depth + 1), tree(it, depth + 1), tree(it, depth + 1))
            return ("if", tree(it, depth + 1), tree(it, depth + 1), tree(it, depth + 1))

        def leafcount(e) -> int:
            return 1 if e[0] in ("v", "c") else sum(leafcount(c) for c in e[1:] if isinstance(c, tuple))

        def one(data: bytes) -> None:
            if state["n"] >= runs:
                col.extra["signature_buckets"] = len(cx.buckets)
                _write(out, col)
            state["n"] += 1
            it = iter(data)
            e = tree(it, 0)
            txt = c12.show(e)
            if leafcount(e) > 14 or txt.count("**") > 2 or ("**" in txt and "00000" in txt or "900719" in txt and "**" in txt):
                col.labels["fuzz_skipped_large"] += 1
                return
            variants = [("mirror", c12.mirror(e)), ("left", c12.rebracket(e, False)), ("right", c12.rebracket(e, True))]
            try:
                c12.examine(cx, e, "fuzz", variants, do_mut=True)
                for _, v in variants:
                    c12.examine(cx, v, "fuzz", [], do_mut=False)
            except (RecursionError, MemoryError, OverflowError, ValueError):
                col.labels["fuzz_resource_limit"] += 1

    corpus = out + ".corpus"
    os.makedirs(corpus, exist_ok=True)
    args = [sys.argv[0], corpus, f"-seed={seed}", "-runs=2000000000", "-max_len=64", "-timeout=3600", "-rss_limit_mb=4096",
            "-print_final_stats=0", "-verbosity=0", "-close_fd_mask=0", f"-artifact_prefix={os.path.dirname(os.path.abspath(out))}/"]
    atheris.Setup(args, one)
    atheris.Fuzz()


if __name__ == "__main__":
    main(sys.argv)
