"""C01 — pipeline execution matches the documented dual-channel node semantics.

Differential, stepwise oracle: real ``Pipeline.process`` (observed through a recording transport,
the return value / raised exception and sink files) against the reference interpreter M.
"""
from __future__ import annotations

import os
from typing import Any, Dict, List

from ..core.campaign import run_campaign
from ..core.collect import Collector
from ..lib import gen, model as M, observe

ID = "C01"
LEVEL = "exploration"
RULE = ("Hypothesis-generated pipelines of 1..8 nodes over the component library (sources, payload sources, float "
        "operations with/without defaults, context-writing and undeclared-writing operations, probes, rename/delete/"
        "template, slicers, parameter sweeps, sinks) x a placement per parameter (config / initial context / produced by an "
        "earlier node / default / missing) x initial context over a 18-key alphabet x initial payload; compared stepwise "
        "with the reference interpreter. non-trivial = >=1 parameter resolved from context or default, or a probe/context "
        "processor feeds a later parameter, or the run fails at node index >= 1; distinct = canonical JSON of the case")
ASSUMPTIONS = [
    "only configurations whose nodes all construct are in the domain (construction errors belong to C02/C06)",
    "no parameters configured on rename/delete/template nodes; no None context values; no int/bool parameter values",
    "exception messages are not compared; the raised type must be (a subclass of) the prescribed type",
    "floats are compared bit-exactly except after a range-valued sweep ran (rtol 1e-9: own linspace vs numpy)",
]


def nodekind(node: Dict[str, Any]) -> str:
    d = M.describe(node)
    return d["kind"] + (":" + d["sub"] if d.get("sub") else "")


def labels_of(case: Dict[str, Any], m: Dict[str, Any]) -> List[str]:
    labs = set()
    for e in m["log"]:
        for name, p in (e.get("params") or {}).items():
            if p["source"] == "context":
                labs.add("param_from_context")
                if isinstance(p["writer"], int):
                    labs.add("chain_node_to_param")
            if p["source"] == "default":
                labs.add("param_from_default")
        node = case["nodes"][e["index"]]
        desc = M.describe(node)
        for name, dflt in desc["params"]:
            p = (e.get("params") or {}).get(name)
            if p and dflt != M.NODEF and p["source"] == "context":
                labs.add("default_overridden_by_context")
            if p and p["source"] == "config" and name in e["pre"]:
                labs.add("same_name_config_and_context")
        k = nodekind(node)
        labs.add("kind:" + k)
        if desc.get("sub") == "slice":
            labs.add("slicer")
        if desc.get("sub") == "sweep":
            labs.add("sweep")
        for c in desc["created"]:
            if c in e["pre"]:
                labs.add("recreated_key")
    if not m["ok"]:
        labs.add("fails")
        labs.add("fail:" + m["fail"]["kind"])
        if m["fail"]["index"] >= 1:
            labs.add("fails_at_index>=1")
    else:
        labs.add("succeeds")
    return sorted(labs)


def nontrivial(labs: List[str]) -> bool:
    return bool({"param_from_context", "param_from_default", "chain_node_to_param", "fails_at_index>=1"} & set(labs))


def _diff_features(mctx: Dict[str, Any], rctx: Dict[str, Any], approx: bool, case, m) -> Dict[str, Any]:
    classes = set()
    writers = set()
    last_writer: Dict[str, int] = {}
    for e in m["log"]:
        if "post" in e:
            for k in e["post"]:
                if k not in e["pre"] or not observe.equal(e["pre"][k], e["post"][k]) or k in M.describe(case["nodes"][e["index"]])["created"]:
                    last_writer[k] = e["index"]
    for k in set(mctx) | set(rctx):
        if k not in rctx:
            classes.add("missing_in_real")
        elif k not in mctx:
            classes.add("extra_in_real")
        elif not observe.equal(mctx[k], rctx[k], approx):
            classes.add("value")
        else:
            continue
        if k in last_writer:
            writers.add(nodekind(case["nodes"][last_writer[k]]))
        else:
            writers.add("initial")
    return {"diff": sorted(classes), "writer": sorted(writers)}


def check_case(case: Dict[str, Any], col: Collector, count: bool = True) -> None:
    for p in gen.PATHS:
        if os.path.exists(p):
            os.remove(p)
    m = M.run(case)
    r = observe.run_real(case)
    if not r["constructed"]:
        col.exclude(1, "not_constructible:" + r["exc_type"])
        return
    labs = labels_of(case, m)
    if count:
        col.count(case, labs, nontrivial(labs))
    approx = m["approx"]
    nk_fail = nodekind(case["nodes"][m["fail"]["index"]]) if not m["ok"] else None
    name_len = approx and ((not r["ok"] and isinstance(r["exc"], OSError) and getattr(r["exc"], "errno", None) == 36)
                           or (not m["ok"] and m["fail"]["exc"] == "OSError"))
    div0 = approx and m["ok"] != r["ok"] and (
        (not r["ok"] and "Division by zero" in str(r["exc"])) or (not m["ok"] and "Division by zero" in str(m["fail"].get("detail", ""))))
    if div0:
        # a divisor derived from a range sweep hits zero exactly in one float evaluation order and misses it by one ulp in
        # the other: a discontinuity, not a semantic difference (the reference's progression is its own, not numpy's)
        col.exclude(1, "range_derived_divisor_at_zero")
    elif name_len and m["ok"] != r["ok"]:
        # numpy scalars render longer (np.float64(...)) than the floats of the reference: whether a templated file
        # name crosses the 255-byte limit is then an artefact of an undocumented repr, not of the semantics
        col.exclude(1, "file_name_length_depends_on_numpy_repr")
    elif m["ok"] and not r["ok"]:
        idx = len(r["published"])
        col.add("unexpected_failure", {"exc": r["exc_type"], "node": nodekind(case["nodes"][min(idx, len(case["nodes"]) - 1)])},
                case, observed={"exc": r["exc_type"], "msg": str(r["exc"])[:200], "index": idx}, expected="success")
    elif not m["ok"] and r["ok"]:
        col.add("missing_failure", {"kind": m["fail"]["kind"], "node": nk_fail}, case,
                observed="success", expected=m["fail"])
    elif not m["ok"]:
        if not observe.exc_matches(r["exc"], m["fail"]["exc"]):
            col.add("wrong_exception_type", {"expected": m["fail"]["exc"], "observed": r["exc_type"], "kind": m["fail"]["kind"], "node": nk_fail},
                    case, observed={"exc": r["exc_type"], "msg": str(r["exc"])[:200]}, expected=m["fail"])
        if len(r["published"]) != m["fail"]["index"]:
            col.add("wrong_failure_index", {"kind": m["fail"]["kind"], "later": len(r["published"]) > m["fail"]["index"], "node": nk_fail},
                    case, observed=len(r["published"]), expected=m["fail"]["index"])
    else:
        if not observe.equal(m["data"], r["data"], approx):
            col.add("final_data", {"node": nodekind(case["nodes"][-1])}, case, observed=r["data"], expected=m["data"])
        if not observe.equal(m["ctx"], r["ctx"], approx):
            col.add("final_context", _diff_features(m["ctx"], r["ctx"], approx, case, m), case,
                    observed=r["ctx"], expected=m["ctx"])
    # stepwise: every published post-state equals the model's log
    for i, rec in enumerate(r["published"]):
        if i >= len(m["log"]) or "post" not in m["log"][i]:
            break
        e = m["log"][i]
        if not observe.equal(e["out"], rec["data"], approx):
            col.add("step_data", {"node": nodekind(case["nodes"][i])}, case, observed=rec["data"], expected=e["out"])
            break
        if not observe.equal(e["post"], rec["ctx"], approx):
            col.add("step_context", dict(_diff_features(e["post"], rec["ctx"], approx, case, m), node=nodekind(case["nodes"][i])),
                    case, observed=rec["ctx"], expected=e["post"])
            break
    # sink files
    for p in gen.PATHS:
        have = open(p).read() if os.path.exists(p) else None
        want = m["files"].get(p)
        if (have is None) != (want is None) or (have is not None and not observe._str_close(have, want)):
            col.add("sink_file", {"present": have is not None, "expected_present": want is not None}, case,
                    observed=have, expected=want)
        if have is not None:
            os.remove(p)


def plan(tier: str, seed: int, scale: float = 1.0) -> List[Dict[str, Any]]:
    nshards, n = (64, 250) if tier == "quick" else (320, 250)
    n = max(10, int(n * scale))
    return [{"seed": seed * 10007 + i, "n": n, "timeout": 900} for i in range(nshards)]


def run_shard(spec: Dict[str, Any]) -> Dict[str, Any]:
    col = Collector()
    run_campaign(gen.case(rich_sweeps="numpy"), lambda c: check_case(c, col), spec["n"], spec["seed"])
    return col.result()


def replay(case: Dict[str, Any]) -> List[Dict[str, Any]]:
    col = Collector()
    check_case(case, col)
    return [{"check": b["check"], "features": b["features"], "observed": b["observed"], "expected": b["expected"],
             "case": b["case"]} for b in col.buckets.values()]


def valid(case: Any) -> bool:
    try:
        if not (isinstance(case, dict) and case.get("nodes")):
            return False
        for n in case["nodes"]:
            d = M.describe(n)
            if d["kind"] == "probe" and not n.get("context_key"):
                return False
            if n.get("sweep"):
                sw = n["sweep"]
                if not sw.get("vars") or sw.get("mode", "combinatorial") not in ("combinatorial", "by_position"):
                    return False
                for v in sw["vars"].values():
                    if v.get("kind") not in ("values", "range", "ctx"):
                        return False
                    if v["kind"] == "values" and not (isinstance(v.get("values"), list) and v["values"]):
                        return False
                    if v["kind"] == "range" and not all(k in v for k in ("lo", "hi", "steps")):
                        return False
                    if v["kind"] == "ctx" and not isinstance(v.get("key"), str):
                        return False
        data = case.get("data", M.NONE)
        if not (isinstance(data, dict) and data.get("t") in ("None", "NoDataType", "FloatDataType") + M.COLLECTIONS):
            return False
        if data["t"] == "FloatDataType" and not isinstance(data.get("v"), float):
            return False
        if data["t"] in M.COLLECTIONS and not (isinstance(data.get("v"), list) and all(isinstance(x, float) for x in data["v"])):
            return False
        return isinstance(case.get("ctx") or {}, dict)
    except Exception:
        return False


def label_requirements(tier: str) -> Dict[str, Any]:
    return {"chain_node_to_param": 0.10, "default_overridden_by_context": 0.05, "fails": 0.10, "succeeds": 0.15,
            "slicer": 0.04, "sweep": 0.05, "recreated_key": 0.04, "fails_at_index>=1": 0.05,
            "fail:UNDECLARED": 3, "fail:TYPE": 0.03, "fail:UNRESOLVED": 0.05, "fail:PROCESSOR": 0.05,
            "same_name_config_and_context": 0.03}
