"""C08 — run-space expansion yields exactly the documented ordered list of runs."""
from __future__ import annotations

import copy
import csv
import io
import itertools
import json
import os
import shutil
import tempfile
import tracemalloc
from typing import Any, Dict, List, Optional, Tuple

import yaml
from hypothesis import strategies as st

from ..core.campaign import run_campaign
from ..core.collect import Collector
from ..lib import observe

ID = "C08"
LEVEL = "exploration"
RULE = ("Hypothesis-generated run_space specs: 0..4 blocks x block mode x source mode x combine mode; key sets with deliberate "
        "collisions (within a block, across blocks, after rename); list lengths 0..4; csv / json (rows and columnar) / yaml / "
        "ndjson sources written to the case's temp dir with select (valid / missing column) and rename (valid / colliding); "
        "max_runs from 0 to beyond the product; entry points expand_run_space(RunSpaceV1Config) and the YAML path "
        "(parse_pipeline_config). Compared with a reference expander written from the documented rules; rejections are "
        "compared as sets of applicable classes. Promptness is decided with tracemalloc on products of 1e4..1e5 runs with a "
        "small cap. non-trivial = >= 2 blocks or a source with select/rename or a rejection; distinct = canonical JSON of the spec")
ASSUMPTIONS = [
    "when a specification is invalid in more than one way any applicable rejection class is accepted (precedence is unspecified)",
    "inside one combinatorial block with both inline context and a source, when a source key sorts before a context key the run ORDER is compared as a multiset (docs do not say whether keys are sorted globally or per origin)",
    "CSV cells use spellings whose documented coercion is unambiguous (1, 2.5, words)",
    "promptness: tracemalloc peak during the rejected call < 5% of the measured cost of materialising that product and < 600 kB",
]

KEYS = ["a", "b", "c", "d", "k1", "x"]
VALS = [1, 2, 3, 1.5, 2.5, "u", "v", "w"]


@st.composite
def file_spec(draw, idx: int):
    fmt = draw(st.sampled_from(["csv", "json", "yaml", "ndjson"]))
    shape = "rows" if fmt in ("csv", "ndjson") else draw(st.sampled_from(["rows", "columns"]))
    cols = draw(st.lists(st.sampled_from(KEYS + ["e", "f"]), min_size=1, max_size=3, unique=True))
    n = draw(st.integers(0, 4))
    data = {c: [draw(st.sampled_from(VALS)) for _ in range(n)] for c in cols}
    if shape == "columns" and draw(st.integers(0, 3)) == 0:
        c = draw(st.sampled_from(cols))
        data[c] = data[c][: draw(st.integers(0, len(data[c])))] if data[c] else data[c]
    scalar = draw(st.sampled_from(cols)) if shape == "columns" and draw(st.integers(0, 4)) == 0 else None
    return {"format": fmt, "shape": shape, "columns": data, "scalar_column": scalar, "name": f"src{idx}.{fmt}"}


@st.composite
def c08_case(draw):
    nblocks = draw(st.sampled_from([0, 1, 1, 2, 2, 3, 4]))
    files = []
    blocks = []
    for _ in range(nblocks):
        mode = draw(st.sampled_from(["by_position", "combinatorial"]))
        nk = draw(st.integers(0, 3))
        keys = draw(st.lists(st.sampled_from(KEYS), min_size=nk, max_size=nk, unique=True))
        n = draw(st.integers(0, 4))
        ctx = {}
        for k in keys:
            ln = n if (mode == "by_position" and draw(st.integers(0, 7)) != 0) else draw(st.integers(0, 4))
            ctx[k] = [draw(st.sampled_from(VALS)) for _ in range(ln)]
        src = None
        if draw(st.integers(0, 2)) == 0:
            reused = False
            if files and draw(st.sampled_from([False, True, False])):
                f = draw(st.sampled_from(files))  # a second block reads the same file (other select / rename)
                reused = True
            else:
                f = draw(file_spec(len(files)))
                files.append(f)
            cols = list(f["columns"])
            select = None
            if draw(st.booleans()):
                select = draw(st.lists(st.sampled_from(cols + ["zz"] if draw(st.integers(0, 5)) == 0 else cols), min_size=1, max_size=3, unique=True))
            rename = {}
            if draw(st.booleans()):
                for c in draw(st.lists(st.sampled_from(cols), max_size=2, unique=True)):
                    rename[c] = draw(st.sampled_from(KEYS + ["r1"]))
            if len(cols) >= 2 and draw(st.integers(0, 3)) == 0:
                a, b = draw(st.permutations(cols))[:2]
                # a simultaneous swap, or a chain a->b, b->c: both valid (no two columns end up with one name)
                rename = {a: b, b: a} if draw(st.booleans()) else {a: b, b: draw(st.sampled_from(["r1", "r2"]))}
                if draw(st.booleans()):
                    rename = dict(reversed(list(rename.items())))
            if reused and cols and draw(st.booleans()):
                # make the second reading of the file a VALID one: one column, renamed to a key nobody else uses
                c0 = draw(st.sampled_from(cols))
                select, rename = [c0], {c0: "shared_%d" % len(blocks)}
            src = {"format": f["format"], "path": f["name"], "select": select, "rename": rename,
                   "mode": draw(st.sampled_from(["by_position", "by_position", "combinatorial", None]))}
            if draw(st.integers(0, 14)) == 0:
                src["path"] = "missing_" + f["name"]
        blocks.append({"mode": mode, "context": ctx, "source": src})
    return {"combine": draw(st.sampled_from(["combinatorial", "combinatorial", "by_position"])),
            "max_runs": draw(st.sampled_from([0, 1, 2, 3, 5, 8, 20, 1000])), "blocks": blocks, "files": files,
            "entry": draw(st.sampled_from(["api", "yaml"]))}


# ---- reference expander ---------------------------------------------------------------------------------
class Reject(Exception):
    def __init__(self, cls: str, actual: Optional[int] = None):
        super().__init__(cls)
        self.cls = cls
        self.actual = actual


def _coerce(cell: str) -> Any:
    low = cell.strip().lower()
    if low in ("true", "false"):
        return low == "true"
    try:
        return float(cell) if "." in cell else int(cell)
    except ValueError:
        return cell


def file_columns(f: Dict[str, Any]) -> Dict[str, List[Any]]:
    cols = {k: list(v) for k, v in f["columns"].items()}
    if f["shape"] == "columns" and f.get("scalar_column"):
        c = f["scalar_column"]
        cols[c] = [cols[c][0]] if cols[c] else ["s"]
    if f["format"] == "csv":
        n = max((len(v) for v in cols.values()), default=0)
        cols = {k: [(_coerce(_cell(v[i])) if i < len(v) else None) for i in range(n)] for k, v in cols.items()}
    return cols


def _cell(v: Any) -> str:
    return str(v)


def write_file(f: Dict[str, Any], d: str) -> None:
    cols = f["columns"]
    path = os.path.join(d, f["name"])
    n = max((len(v) for v in cols.values()), default=0)
    if f["shape"] == "rows":
        rows = [{k: v[i] for k, v in cols.items() if i < len(v)} for i in range(n)]
        if f["format"] == "csv":
            with open(path, "w", newline="") as fh:
                w = csv.writer(fh)
                w.writerow(list(cols))
                for i in range(n):
                    w.writerow([_cell(v[i]) if i < len(v) else "" for v in cols.values()])
        elif f["format"] == "ndjson":
            with open(path, "w") as fh:
                for r in rows:
                    fh.write(json.dumps(r) + "\n")
        elif f["format"] == "json":
            json.dump(rows, open(path, "w"))
        else:
            yaml.safe_dump(rows, open(path, "w"))
    else:
        payload = {k: list(v) for k, v in cols.items()}
        if f.get("scalar_column"):
            c = f["scalar_column"]
            payload[c] = cols[c][0] if cols[c] else "s"
        if f["format"] == "json":
            json.dump(payload, open(path, "w"))
        else:
            yaml.safe_dump(payload, open(path, "w"))


def rows_columns(f: Dict[str, Any]) -> Dict[str, List[Any]]:
    """Columns as a rows-shaped file yields them: a missing cell is simply absent (shorter column), csv pads."""
    cols = file_columns(f)
    if f["shape"] == "rows" and f["format"] == "csv":
        # csv.DictReader fills short rows with None; our writer writes "" for missing cells -> coerced ""
        n = max((len(v) for v in f["columns"].values()), default=0)
        return {k: [(_coerce(_cell(v[i])) if i < len(v) else "") for i in range(n)] for k, v in f["columns"].items()}
    if f["shape"] == "rows":
        # json / yaml / ndjson rows: a key that occurs in no row yields no column at all
        return {k: v for k, v in cols.items() if len(v) > 0}
    return cols


def expand_entries(entries: Dict[str, List[Any]], mode: str) -> List[Dict[str, Any]]:
    if not entries:
        return []
    keys = sorted(entries)
    if mode == "by_position":
        if len({len(entries[k]) for k in keys}) > 1:
            raise Reject("config")
        return [{k: entries[k][i] for k in keys} for i in range(len(entries[keys[0]]))]
    return [dict(zip(keys, combo)) for combo in itertools.product(*[entries[k] for k in keys])]


def reference(spec: Dict[str, Any]) -> Dict[str, Any]:
    files = {f["name"]: f for f in spec["files"]}
    errors = set()
    block_runs: List[Optional[List[Dict[str, Any]]]] = []
    seen: set = set()
    ambiguous = False
    for b in spec["blocks"]:
        try:
            ctx = {k: list(v) for k, v in b["context"].items()}
            src_cols: Dict[str, List[Any]] = {}
            s = b.get("source")
            if s is not None:
                if s["path"] not in files:
                    raise Reject("config")
                cols = rows_columns(files[s["path"]])
                if s.get("select") is not None:
                    if any(c not in cols for c in s["select"]):
                        raise Reject("config")
                    cols = {c: cols[c] for c in s["select"]}
                if s.get("rename"):
                    ren: Dict[str, List[Any]] = {}
                    for k, v in cols.items():
                        t = s["rename"].get(k, k)
                        if t in ren:
                            raise Reject("config")
                        ren[t] = v
                    cols = ren
                src_cols = cols
                if set(ctx) & set(src_cols):
                    raise Reject("config")
            smode = (s.get("mode") or "by_position") if s else None
            if b["mode"] == "by_position":
                cr = expand_entries(ctx, "by_position") if ctx else None
                sr = expand_entries(src_cols, smode) if src_cols else None
                sizes = [len(r) for r in (cr, sr) if r is not None]
                if sizes and len(set(sizes)) != 1:
                    raise Reject("config")
                n = sizes[0] if sizes else 0
                runs = [dict((cr[i] if cr is not None else {}), **(sr[i] if sr is not None else {})) for i in range(n)]
            else:
                cr = expand_entries(ctx, "combinatorial") if ctx else [{}]
                sr = expand_entries(src_cols, smode) if src_cols else [{}]
                runs = [dict(c, **x) for c in cr for x in sr]
                if ctx and src_cols and min(src_cols) < max(ctx):
                    ambiguous = True
            cur = set(ctx) | set(src_cols)
            if seen & cur:
                errors.add("config")
            seen |= cur
            block_runs.append(runs)
        except Reject as r:
            errors.add(r.cls)
            block_runs.append(None)
    sizes_known = all(r is not None for r in block_runs)
    total = None
    if sizes_known:
        sizes = [len(r) for r in block_runs]  # type: ignore[arg-type]
        if not block_runs:
            total = 1
        elif spec["combine"] == "combinatorial":
            total = 0 if any(x == 0 for x in sizes) else 1
            if total:
                for x in sizes:
                    total *= x
        else:
            if len(set(sizes)) != 1:
                errors.add("config")
            else:
                total = sizes[0]
        if total is not None and total > spec["max_runs"] and block_runs:
            errors.add("maxruns")
    if errors:
        accepted = set(errors)
        if "config" in errors:
            accepted.add("maxruns")  # an invalid block: whether the cap would also apply is not decided
        return {"ok": False, "accepted": sorted(accepted), "must_be": sorted(errors) if errors == {"maxruns"} else None, "actual": total}
    if not block_runs:
        runs = [{}]
    elif spec["combine"] == "combinatorial":
        runs = [] if total == 0 else [_merge(c) for c in itertools.product(*block_runs)]  # type: ignore[arg-type]
    else:
        runs = [_merge([r[i] for r in block_runs]) for i in range(total or 0)]  # type: ignore[index]
    return {"ok": True, "runs": runs, "ambiguous": ambiguous}


def _merge(parts) -> Dict[str, Any]:
    out: Dict[str, Any] = {}
    for p in parts:
        out.update(p)
    return out


# ---- real ---------------------------------------------------------------------------------------------
def to_block(spec: Dict[str, Any]) -> Dict[str, Any]:
    blocks = []
    for b in spec["blocks"]:
        e: Dict[str, Any] = {"mode": b["mode"]}
        if b["context"]:
            e["context"] = copy.deepcopy(b["context"])
        if b.get("source"):
            s = b["source"]
            se: Dict[str, Any] = {"format": s["format"], "path": s["path"]}
            if s.get("select") is not None:
                se["select"] = list(s["select"])
            if s.get("rename"):
                se["rename"] = dict(s["rename"])
            if s.get("mode"):
                se["mode"] = s["mode"]
            e["source"] = se
        blocks.append(e)
    return {"combine": spec["combine"], "max_runs": spec["max_runs"], "blocks": blocks}


def real(spec: Dict[str, Any], d: str) -> Dict[str, Any]:
    from semantiva.configurations.load_pipeline_from_yaml import parse_pipeline_config
    from semantiva.configurations.schema import RunBlock, RunSource, RunSpaceV1Config
    from semantiva.exceptions.pipeline_exceptions import PipelineConfigurationError, RunSpaceMaxRunsExceededError
    from semantiva.execution.run_space import expand_run_space

    observe.ensure_registered()
    try:
        if spec.get("entry") == "yaml":
            cfg = parse_pipeline_config({"pipeline": {"nodes": [{"processor": "FloatDataSource"}]}, "run_space": to_block(spec)})
            rs = cfg.run_space
        else:
            rs = RunSpaceV1Config(combine=spec["combine"], max_runs=spec["max_runs"], blocks=[
                RunBlock(mode=b["mode"], context=copy.deepcopy(b["context"]),
                         source=(RunSource(format=b["source"]["format"], path=b["source"]["path"], select=b["source"].get("select"),
                                           rename=dict(b["source"].get("rename") or {}), mode=b["source"].get("mode") or "by_position")
                                 if b.get("source") else None)) for b in spec["blocks"]])
        runs, meta = expand_run_space(rs, cwd=d)
        return {"ok": True, "runs": runs, "meta": meta}
    except RunSpaceMaxRunsExceededError as exc:
        return {"ok": False, "cls": "maxruns", "actual": exc.actual_runs, "max": exc.max_runs}
    except (PipelineConfigurationError, ValueError) as exc:
        return {"ok": False, "cls": "config", "msg": str(exc)[:160]}


def _cli_dry_run(spec: Dict[str, Any], d: str) -> Dict[str, Any]:
    """`semantiva run --run-space-dry-run` on the same specification: exit code, printed plan, nothing executed."""
    import re

    from ..lib import clidrv

    block = to_block(spec)
    argv = ["run", "p.yaml", "-q", "--run-space-dry-run"]
    if len(_freeze(spec)) % 2 == 0:
        # the cap is given on the command line instead of in the file (same meaning, also for a cap of 0)
        block["max_runs"] = 1000
        argv += ["--run-space-max-runs", str(spec["max_runs"])]
    own = block
    if (len(_freeze(spec)) // 3) % 2 == 1:
        # the plan comes from --run-space-file; the pipeline file has a run_space section of its own, which the override
        # REPLACES (keys the override file leaves at their defaults must not be inherited from it)
        override = {k: v for k, v in block.items() if not ((k == "combine" and v == "combinatorial") or (k == "max_runs" and v == 1000))}
        clidrv.write_yaml(os.path.join(d, "rs.yaml"), {"run_space": override})
        own = {"combine": "by_position", "max_runs": 1, "blocks": [{"mode": "by_position", "context": {"own_key": [1, 2]}}]}
        argv += ["--run-space-file", "rs.yaml"]
    cfg = clidrv.config_mapping([{"p": "VMarkerSource", "params": {"marker": "marker.txt"}}], run_space=own)
    clidrv.write_yaml(os.path.join(d, "p.yaml"), cfg)
    res = clidrv.run_inprocess(argv, d)
    m = re.search(r"expanded_runs:\s*(\d+)", res["stdout"])
    preview = re.findall(r"^\s+\d+: (\{.*)$", res["stdout"], re.M)
    return {"code": res["code"], "expanded_runs": int(m.group(1)) if m else None, "preview": preview,
            "executed": os.path.exists(os.path.join(d, "marker.txt")), "stderr": res["stderr"][-160:]}


def _freeze(x: Any) -> str:
    return json.dumps(x, sort_keys=True, default=repr)


def typed_equal(a: Any, b: Any) -> bool:
    return _freeze(a) == _freeze(b) and observe.equal(observe.norm_value(a), observe.norm_value(b))


def check_case(spec: Dict[str, Any], col: Collector, workroot: str = ".") -> None:
    d = tempfile.mkdtemp(prefix="c08-", dir=workroot)
    try:
        for f in spec["files"]:
            write_file(f, d)
        decoys: List[str] = []
        if len(_freeze(spec)) % 2 == 0:
            # a same-named file with other content sits in the process' working directory: relative source paths are
            # resolved against the directory handed to the expansion (the YAML's directory), never against that one
            for f in spec["files"]:
                if not os.path.isabs(f["name"]) and not os.path.exists(os.path.join(os.getcwd(), f["name"])):
                    decoy = copy.deepcopy(f)
                    decoy["columns"] = {k: [("decoy" if isinstance(x, str) else 4242.0) for x in v] + [4242.0] for k, v in f["columns"].items()}
                    decoy.pop("scalar_column", None)
                    write_file(decoy, os.getcwd())
                    decoys.append(os.path.join(os.getcwd(), f["name"]))
        try:
            ref = reference(spec)
            got = real(spec, d)
        finally:
            for pth in decoys:
                if os.path.exists(pth):
                    os.remove(pth)
        if decoys:
            col.labels["decoy_source_in_process_cwd"] += 1
        dry = _cli_dry_run(spec, d) if spec.get("entry") == "yaml" and (len(_freeze(spec)) % 3 == 0) else None
    finally:
        shutil.rmtree(d, ignore_errors=True)
    labs = ["blocks:%d" % len(spec["blocks"]), "combine:" + spec["combine"], "entry:" + spec.get("entry", "api")]
    has_src = False
    for b in spec["blocks"]:
        labs.append("block_mode:" + b["mode"])
        if b.get("source"):
            has_src = True
            labs.append("format:" + b["source"]["format"])
            if b["source"].get("select") is not None:
                labs.append("select")
            if b["source"].get("rename"):
                labs.append("rename")
    if ref["ok"]:
        labs.append("expands")
        if ref.get("ambiguous"):
            labs.append("ambiguous_order")
    else:
        labs += ["reject:" + c for c in (ref["must_be"] or ["config"])]
    rep = {k: spec[k] for k in ("combine", "max_runs", "blocks", "files", "entry")}
    col.count(rep, labs, len(spec["blocks"]) >= 2 or (has_src and ("select" in labs or "rename" in labs)) or not ref["ok"])
    feats = {"entry": spec.get("entry", "api"), "combine": spec["combine"]}
    if dry is not None:
        col.labels["cli_dry_run_stdout"] += 1
        if ref["ok"]:
            want_preview = [json.dumps(r, separators=(",", ":"), default=str) for r in ref["runs"][:2]] if not ref.get("ambiguous") else None
            if dry["code"] != 0 or dry["expanded_runs"] != len(ref["runs"]) or dry["executed"]:
                col.add("cli_dry_run_plan", dict(feats, what="count_or_exit"), rep, dry, {"expanded_runs": len(ref["runs"]), "code": 0})
            elif want_preview is not None and [p for p in dry["preview"][:2]] != [w if len(w) <= 60 else w[:57] + "…" for w in want_preview]:
                col.add("cli_dry_run_plan", dict(feats, what="preview_order"), rep, dry["preview"][:2], want_preview)
        else:
            if dry["code"] != 3 or dry["executed"]:
                col.add("cli_dry_run_plan", dict(feats, what="invalid_spec_not_rejected_with_3"), rep, dry, {"code": 3})
    if ref["ok"] and not got["ok"]:
        col.add("valid_spec_rejected", dict(feats, cls=got["cls"]), rep, got, {"runs": len(ref["runs"])})
    elif not ref["ok"] and got["ok"]:
        col.add("invalid_spec_accepted", dict(feats, expected=ref["accepted"]), rep, {"runs": len(got["runs"])}, ref)
    elif not ref["ok"]:
        if got["cls"] not in ref["accepted"]:
            col.add("wrong_rejection_class", dict(feats, got=got["cls"]), rep, got, ref)
        if got["cls"] == "maxruns" and ref["actual"] is not None and (got["actual"] != ref["actual"] or got["max"] != spec["max_runs"]):
            col.add("max_runs_error_numbers", feats, rep, got, {"actual": ref["actual"], "max": spec["max_runs"]})
    else:
        a, b = got["runs"], ref["runs"]
        if len(a) != len(b):
            col.add("run_count", feats, rep, len(a), len(b))
        elif ref.get("ambiguous"):
            if sorted(map(_freeze, a)) != sorted(map(_freeze, b)):
                col.add("runs_multiset", feats, rep, a[:4], b[:4])
        elif not all(typed_equal(x, y) for x, y in zip(a, b)):
            same_set = sorted(map(_freeze, a)) == sorted(map(_freeze, b))
            col.add("run_order" if same_set else "run_values", feats, rep, a[:6], b[:6])
        keys = set().union(*[set(r) for r in b]) if b else set()
        if any(set(r) != keys for r in a):
            col.add("run_without_union_of_keys", feats, rep, [sorted(r) for r in a[:4]], sorted(keys))
        if got["meta"].get("expanded_runs") != len(b):
            col.add("meta_expanded_runs", feats, rep, got["meta"].get("expanded_runs"), len(b))


# ---- promptness -----------------------------------------------------------------------------------------
def promptness(col: Collector, shapes: List[Tuple[int, int, int, str]]) -> None:
    from semantiva.configurations.schema import RunBlock, RunSpaceV1Config
    from semantiva.exceptions.pipeline_exceptions import RunSpaceMaxRunsExceededError
    from semantiva.execution.run_space import expand_run_space

    from semantiva.configurations.schema import RunSource

    tdir = tempfile.mkdtemp(prefix="c08p-")
    for nkeys, nvals, cap, layout in shapes:
        ctx = {f"k{i}": list(range(nvals)) for i in range(nkeys)}
        if layout == "one_block":
            blocks = [RunBlock(mode="combinatorial", context=ctx)]
        elif layout == "block_per_key":
            blocks = [RunBlock(mode="combinatorial", context={k: v}) for k, v in ctx.items()]
        else:
            # the product comes from a columnar source file expanded combinatorially, inside a block of either mode,
            # optionally next to inline context keys
            src_path = os.path.join(tdir, f"cols_{nkeys}_{nvals}.json")
            json.dump(ctx, open(src_path, "w"))
            block_mode = "by_position" if layout.startswith("by_position") else "combinatorial"
            inline = {"inline": [0]} if layout.endswith("+context") and block_mode == "combinatorial" else {}
            blocks = [RunBlock(mode=block_mode, context=inline, source=RunSource(format="json", path=src_path, mode="combinatorial"))]
        product = nvals ** nkeys
        for combine in (("combinatorial", "by_position") if len(blocks) == 1 else ("combinatorial",)):
            _promptness_one(col, RunSpaceV1Config(combine=combine, max_runs=cap, blocks=blocks), ctx, product,
                            {"promptness": {"keys": nkeys, "values": nvals, "max_runs": cap, "layout": layout, "combine": combine}}, layout, combine)
    shutil.rmtree(tdir, ignore_errors=True)


def _promptness_one(col: Collector, spec, ctx, product: int, case, layout: str, combine: str) -> None:
    from semantiva.exceptions.pipeline_exceptions import RunSpaceMaxRunsExceededError
    from semantiva.execution.run_space import expand_run_space

    if True:
        tracemalloc.start()
        keep = [dict(zip(ctx, combo)) for combo in itertools.product(*ctx.values())]
        _cur, cost = tracemalloc.get_traced_memory()
        del keep
        tracemalloc.stop()
        tracemalloc.start()
        outcome = "returned"
        try:
            expand_run_space(spec)
        except RunSpaceMaxRunsExceededError as exc:
            outcome = "maxruns" if exc.actual_runs == product else "maxruns_wrong_count"
        except Exception as exc:  # noqa: BLE001
            outcome = type(exc).__name__
        _cur, peak = tracemalloc.get_traced_memory()
        tracemalloc.stop()
        col.count(case, ["promptness", "layout:" + layout, "promptness_combine:" + combine], True)
        if outcome != "maxruns":
            col.add("cap_exceeded_not_rejected_with_max_runs_error", {"layout": layout, "combine": combine}, case, outcome, "maxruns")
        if peak > 0.05 * cost or peak > 600_000:
            col.add("expansion_materialised_before_cap_check", {"layout": layout, "combine": combine}, case,
                    {"peak_bytes": peak, "materialisation_cost_bytes": cost, "product": product}, "peak < 5% of cost and < 600 kB")


def plan(tier: str, seed: int, scale: float = 1.0) -> List[Dict[str, Any]]:
    nshards, n = (16, 600) if tier == "quick" else (64, 2000)
    specs: List[Dict[str, Any]] = [{"kind": "gen", "seed": seed * 5003 + i, "n": max(20, int(n * scale)), "timeout": 900} for i in range(nshards)]
    shapes = [[4, 11, 10, "one_block"], [5, 8, 1000, "one_block"], [3, 30, 0, "one_block"], [4, 12, 10, "block_per_key"], [2, 200, 50, "one_block"],
              [4, 11, 10, "by_position_block_combinatorial_source"], [3, 30, 100, "combinatorial_block_combinatorial_source"],
              [4, 10, 5, "combinatorial_block_combinatorial_source+context"]]
    if tier == "thorough":
        shapes += [[4, 16, 100, "one_block"], [5, 10, 999, "block_per_key"], [6, 7, 1, "one_block"], [3, 45, 1000, "one_block"],
                   [5, 9, 100, "by_position_block_combinatorial_source"], [4, 16, 1000, "combinatorial_block_combinatorial_source+context"]]
    specs.append({"kind": "prompt", "shapes": shapes, "timeout": 900})
    return specs


def run_shard(spec: Dict[str, Any]) -> Dict[str, Any]:
    col = Collector()
    if spec["kind"] == "prompt":
        promptness(col, [tuple(s) for s in spec["shapes"]])
    else:
        run_campaign(c08_case(), lambda c: check_case(c, col, spec.get("workdir", ".")), spec["n"], spec["seed"])
    return col.result()


def replay(case: Dict[str, Any]) -> List[Dict[str, Any]]:
    col = Collector()
    if "promptness" in case:
        p = case["promptness"]
        promptness(col, [(p["keys"], p["values"], p["max_runs"], p["layout"])])
    else:
        check_case(case, col)
    return [{"check": b["check"], "features": b["features"], "observed": b["observed"], "expected": b["expected"],
             "case": b["case"]} for b in col.buckets.values()]


def valid(case: Any) -> bool:
    try:
        if "promptness" in case:
            return True
        names = {f["name"] for f in case["files"]}
        for b in case["blocks"]:
            if b["mode"] not in ("by_position", "combinatorial") or not isinstance(b["context"], dict):
                return False
            if not all(isinstance(v, list) for v in b["context"].values()):
                return False
            s = b.get("source")
            if s and (s["format"] not in ("csv", "json", "yaml", "ndjson") or not isinstance(s["path"], str)):
                return False
        for f in case["files"]:
            if f["format"] not in ("csv", "json", "yaml", "ndjson") or f["shape"] not in ("rows", "columns") or not f["name"].endswith(f["format"]):
                return False
            if f["format"] in ("csv", "ndjson") and f["shape"] != "rows":
                return False
            if not f["columns"] or not all(isinstance(v, list) for v in f["columns"].values()):
                return False
        return case["combine"] in ("by_position", "combinatorial") and isinstance(case["max_runs"], int) and not isinstance(case["max_runs"], bool)
    except Exception:
        return False


def label_requirements(tier: str) -> Dict[str, Any]:
    return {"format:csv": 0.03, "format:json": 0.03, "format:yaml": 0.03, "format:ndjson": 0.03, "reject:config": 0.03,
            "reject:maxruns": 0.03, "expands": 0.2, "select": 0.05, "rename": 0.05, "entry:yaml": 0.3, "entry:api": 0.3,
            "promptness": 4, "cli_dry_run_stdout": 50, "blocks:0": 0.015, "blocks:3": 0.05}
