"""C18 — repeated execution leaves no per-run residue in the process."""
from __future__ import annotations

import collections
import copy
import gc
import json
import os
import shutil
import tempfile
import threading
import time
import zlib
from typing import Any, Dict, List, Optional

from hypothesis import strategies as st

from ..core.campaign import run_campaign
from ..core.collect import Collector
from ..lib import clidrv, gen, model as M, observe

ID = "C18"
LEVEL = "exploration"
RULE = ("Hypothesis-generated succeeding pipelines (2..6 nodes incl. sweeps, slicers, context processors) x the four ways of "
        "repeating a run {one reused Pipeline object, a fresh Pipeline per run, a run-space launch through semantiva.cli.main "
        "(sampled from inside by a probe), a queue worker thread} x run counts sampled after run 50 / 150 / 300 / 450 (queue way: "
        "10 / 30 / 60 / 90 in the quick tier because the master polls every 0.2 s) after a warm-up run. Oracle (counts, not time): "
        "after gc.collect() the number of registered component classes is the same at all samples and the number of "
        "gc-tracked objects grows by < 0.5 per run in at least one of the two last windows (a leak is linear and shows in both). non-trivial = every (pipeline, way) pair "
        "with >= 2 nodes; distinct = canonical JSON of (pipeline, way)")
ASSUMPTIONS = [
    "growth is measured as counts (registered classes, gc-tracked objects) after gc.collect(), never as time",
    "a saturating cache passes (growth between the last two samples < 0.5 objects per run); a leak of one object per run fails",
    "the harness keeps no per-run references itself (results are dropped before sampling)",
]

WAYS = ["reuse", "fresh", "launch", "queue"]


@st.composite
def c18_case(draw):
    for _ in range(40):
        c = draw(gen.case(max_nodes=5, min_nodes=2, rare=False, typed_first=1.01))
        m = M.run(c)
        if m["ok"] and len(c["nodes"]) >= 2 and not any(n["p"] in ("FloatTxtFileSaver",) for n in c["nodes"]):
            break
    else:
        c = {"nodes": [{"p": "FloatDataSource"}, {"p": "FloatSquareOperation"}], "ctx": {}, "data": M.NODATA}
    # the way of repeating is a hash of the generated pipeline, not a draw: Hypothesis favours the first alternative of a
    # choice made late in a large case, which starved three of the four ways
    way = WAYS[zlib.crc32(json.dumps(c, sort_keys=True, default=repr).encode()) % len(WAYS)]
    if draw(st.booleans()) and not any(n.get("sweep") for n in c["nodes"]):
        # half of the cases are made to contain a parameter sweep (per-run generated classes are where residue usually comes from)
        m0 = M.run(c)
        kind0 = M.describe(c["nodes"][0])["kind"]
        if kind0 in ("source", "payload_source") and draw(st.booleans()):
            c2 = dict(c, nodes=[{"p": "FloatValueDataSource", "sweep": {"vars": {"t": {"kind": "values", "values": [1.0, 2.0]}}, "params": {"value": "2.0 * t"},
                                                                       "mode": "combinatorial", "broadcast": False, "collection": "FloatDataCollection"}},
                                {"p": "FloatCollectionSumOperation"}] + c["nodes"][1:])
        else:
            spots = [e["index"] + 1 for e in m0["log"] if M.kind_of(e["out"]) == "Float"]
            at = spots[0] if spots else None
            c2 = c if at is None else dict(c, nodes=c["nodes"][:at] + [
                {"p": "FloatMultiplyOperation", "sweep": {"vars": {"t": {"kind": "values", "values": [1.0, 2.0]}}, "params": {"factor": "t + 1.0"},
                                                           "mode": "combinatorial", "broadcast": False, "collection": "FloatDataCollection"}},
                {"p": "FloatCollectionSumOperation"}] + c["nodes"][at:])
        if c2 is not c and M.run(c2)["ok"]:
            c = c2
    if way in ("launch",) and M.describe(c["nodes"][0])["kind"] not in ("source", "payload_source"):
        c = {"nodes": [{"p": "FloatValueDataSource", "params": {"value": 2.0}}] + [n for n in c["nodes"] if M.describe(n)["kind"] not in ("source", "payload_source")],
             "ctx": c["ctx"], "data": M.NODATA}
        if not M.run(c)["ok"]:
            c = {"nodes": [{"p": "FloatValueDataSource", "params": {"value": 2.0}}, {"p": "FloatSquareOperation"}], "ctx": {}, "data": M.NODATA}
    fails = False
    if way != "launch" and draw(st.sampled_from([False, True, False])):
        # "all generated pipelines" includes those that fail at run time: every run raises (a fresh exception object each time)
        m = M.run(c)
        if m["ok"] and M.kind_of(m["data"]) == "Float":
            c = {"nodes": c["nodes"] + [{"p": "FloatDivideOperation", "params": {"divisor": 0.0}}, {"p": "FloatSquareOperation"}], "ctx": c["ctx"], "data": c["data"]}
            fails = not M.run(c)["ok"]
    return {"case": c, "way": way, "traced": draw(st.booleans()), "fails": fails,
            "fire_and_forget": way == "queue" and draw(st.sampled_from([False, True]))}


def sample() -> Dict[str, Any]:
    from semantiva.core.semantiva_component import get_component_registry

    gc.collect()
    reg = get_component_registry()
    return {"registry": sum(len(v) for v in reg.values()), "objects": len(gc.get_objects()), "buckets": {k: len(v) for k, v in reg.items()}}


def type_histogram() -> collections.Counter:
    gc.collect()
    return collections.Counter(type(o).__name__ for o in gc.get_objects())


def run_way(spec: Dict[str, Any], points: List[int], workroot: str) -> Dict[str, Any]:
    observe.ensure_registered()
    from semantiva.pipeline import Payload, Pipeline

    case, way = spec["case"], spec["way"]
    cfg = M.to_config(case)
    samples: Dict[int, Dict[str, Any]] = {}
    hist: Dict[int, collections.Counter] = {}
    last = points[-1]
    tdir = tempfile.mkdtemp(prefix="c18-", dir=workroot)
    try:
        if way in ("reuse", "fresh"):
            pipe = Pipeline(copy.deepcopy(cfg))
            trace_path = os.path.join(tdir, "t.ser.jsonl")
            for i in range(last + 1):
                if way == "fresh":
                    pipe = Pipeline(copy.deepcopy(cfg))
                if spec.get("traced"):
                    from semantiva.trace.drivers.jsonl import JsonlTraceDriver

                    pipe.trace = JsonlTraceDriver(trace_path, detail="hash")
                    if os.path.exists(trace_path) and i % 50 == 0:
                        os.remove(trace_path)
                try:
                    pipe.process(Payload(observe.build_data(case["data"]), copy.deepcopy(case["ctx"])))
                    if spec.get("fails"):
                        return {"skip": "expected to fail, succeeded"}
                except Exception:  # noqa: BLE001
                    if not spec.get("fails"):
                        raise
                if i in points:
                    samples[i] = sample()
                    if i in points[-2:]:
                        hist[i] = type_histogram()
        elif way == "launch":
            from ..lib import components

            components.SAMPLES.clear()
            nodes = copy.deepcopy(case["nodes"])
            # the sampler probe needs Float data: place it after the first node producing a float
            pos = next((j + 1 for j, e in enumerate(M.run(case)["log"]) if M.kind_of(e["out"]) == "Float"), None)
            if pos is None:
                return {"skip": "no float data point for the sampler"}
            nodes.insert(pos, {"p": "VSamplerProbe", "context_key": "sampled", "params": {"sample_at": list(points)}})
            rs = {"combine": "combinatorial", "max_runs": last + 10, "blocks": [{"mode": "by_position", "context": {"idx": list(range(last + 1))}}]}
            mapping = clidrv.config_mapping(nodes, run_space=rs, trace=({"driver": "jsonl", "output_path": "t.ser.jsonl"} if spec.get("traced") else None))
            clidrv.write_yaml(os.path.join(tdir, "p.yaml"), mapping)
            argv = ["run", "p.yaml", "-q"]
            for k, v in (case["ctx"] or {}).items():
                argv += ["--context", f"{k}={json.dumps(v)}"]
            res = clidrv.run_inprocess(argv, tdir)
            if res["code"] != 0:
                return {"skip": f"launch exit {res['code']}: {res['stderr'][-120:]}"}
            samples = {i: components.SAMPLES[i] for i in points if i in components.SAMPLES}
        else:  # queue worker thread
            from semantiva.context_processors import ContextType
            from semantiva.execution.executor.executor import SequentialSemantivaExecutor
            from semantiva.execution.job_queue.queue_orchestrator import QueueSemantivaOrchestrator
            from semantiva.execution.job_queue.worker import worker_loop
            from semantiva.execution.transport.in_memory import InMemorySemantivaTransport
            from semantiva.logger import Logger

            logger = Logger(level="CRITICAL")
            transport = InMemorySemantivaTransport()
            stop = threading.Event()
            master = QueueSemantivaOrchestrator(transport, stop_event=stop, logger=logger)
            mt = threading.Thread(target=master.run_forever, daemon=True)
            wt = threading.Thread(target=worker_loop, args=(0, transport, SequentialSemantivaExecutor(), stop, logger, 0.005), daemon=True)
            mt.start()
            wt.start()
            try:
                for i in range(last + 1):
                    if spec.get("fire_and_forget") and i not in points:
                        # the default way of enqueuing: no Future is asked for; the sample points act as barriers (one worker, FIFO)
                        master.enqueue(copy.deepcopy(cfg), data=observe.build_data(case["data"]), context=ContextType(copy.deepcopy(case["ctx"])))
                        continue
                    fut = master.enqueue(copy.deepcopy(cfg), data=observe.build_data(case["data"]), context=ContextType(copy.deepcopy(case["ctx"])), return_future=True)
                    try:
                        fut.result(timeout=60)
                        if spec.get("fails"):
                            return {"skip": "expected to fail, succeeded"}
                    except Exception:  # noqa: BLE001
                        if not spec.get("fails"):
                            raise
                    del fut
                    if i in points and spec.get("fire_and_forget"):
                        t_end = time.time() + 3.0  # let the master take the statuses of the jobs nobody waits for
                        while time.time() < t_end and (master.job_queue.qsize() or sum(len(q) for q, _l in list(transport._queues.values()))):
                            time.sleep(0.02)
                    if i in points:
                        samples[i] = sample()
                        if i in points[-2:]:
                            hist[i] = type_histogram()
            finally:
                stop.set()
                master.running = False
                mt.join(timeout=3)
                wt.join(timeout=3)
    finally:
        shutil.rmtree(tdir, ignore_errors=True)
    return {"samples": samples, "hist": hist}


def check_case(spec: Dict[str, Any], col: Collector, workroot: str = ".", quick: bool = True) -> None:
    way = spec["way"]
    points = [10, 30, 60, 90] if (way == "queue" and quick) else [50, 150, 300, 450]
    rep = {"case": spec["case"], "way": way, "traced": spec.get("traced", False), "fails": spec.get("fails", False), "fire_and_forget": spec.get("fire_and_forget", False)}
    r = run_way(spec, points, workroot)
    if "skip" in r:
        col.exclude(1, "way_not_applicable")
        return
    s = r["samples"]
    if len(s) != 4:
        col.add("samples_missing", {"way": way}, rep, sorted(s), points)
        return
    labs = ["way:" + way, "nodes:%d" % len(spec["case"]["nodes"]), "traced" if spec.get("traced") else "untraced", "every_run_fails" if spec.get("fails") else "every_run_succeeds"] + (["queue_jobs_without_future"] if spec.get("fire_and_forget") else [])
    for n in spec["case"]["nodes"]:
        d = M.describe(n)
        labs.append("kind:" + d["kind"] + (":" + d["sub"] if d.get("sub") else ""))
    col.count(rep, sorted(set(labs)), len(spec["case"]["nodes"]) >= 2)
    a, b, mid, c = (s[p] for p in points)
    feats = {"way": way}
    if spec.get("fails"):
        feats["runs_fail"] = True
    if spec.get("fire_and_forget"):
        feats["no_future"] = True
    if not (a["registry"] == b["registry"] == mid["registry"] == c["registry"]):
        growing = sorted(k for k in c["buckets"] if c["buckets"].get(k, 0) > a["buckets"].get(k, 0))
        col.add("component_registry_grows_with_runs", dict(feats, buckets=growing[:4]), rep,
                {"registered_classes": [a["registry"], b["registry"], mid["registry"], c["registry"]], "at_runs": points}, "constant")
    # a leak is linear: it shows in BOTH halves of the last window; a one-off cache step shows in one only
    per_run = min((mid["objects"] - b["objects"]) / float(points[2] - points[1]), (c["objects"] - mid["objects"]) / float(points[3] - points[2]))
    if per_run >= 0.5:
        types: List[str] = []
        if r.get("hist"):
            h2, h1 = r["hist"].get(points[3]), r["hist"].get(points[2])
            if h1 is not None and h2 is not None:
                types = [t for t, _n in (h2 - h1).most_common(4)]
        col.add("live_objects_grow_with_runs", dict(feats, types=types), rep,
                {"gc_objects": [a["objects"], b["objects"], mid["objects"], c["objects"]], "at_runs": points, "per_run_min_of_two_windows": round(per_run, 2)},
                "< 0.5 objects per run")


def plan(tier: str, seed: int, scale: float = 1.0) -> List[Dict[str, Any]]:
    nshards, n = (16, 5) if tier == "quick" else (32, 16)
    return [{"seed": seed * 2207 + i, "n": max(2, int(n * scale)), "quick": tier == "quick", "timeout": 2400, "timeout_ok": True} for i in range(nshards)]


def run_shard(spec: Dict[str, Any]) -> Dict[str, Any]:
    col = Collector()
    run_campaign(c18_case(), lambda c: check_case(c, col, spec.get("workdir", "."), spec.get("quick", True)), spec["n"], spec["seed"])
    return col.result()


def replay(case: Dict[str, Any]) -> List[Dict[str, Any]]:
    col = Collector()
    check_case(case, col, ".", True)
    return [{"check": b["check"], "features": b["features"], "observed": b["observed"], "expected": b["expected"],
             "case": b["case"]} for b in col.buckets.values()]


def valid(case: Any) -> bool:
    from .c01 import valid as v1

    try:
        return case["way"] in WAYS and v1(case["case"]) and M.run(case["case"])["ok"] and \
            (case["way"] != "launch" or M.describe(case["case"]["nodes"][0])["kind"] in ("source", "payload_source"))
    except Exception:
        return False


def shrink_candidates(case):
    c = case["case"]
    for i in range(len(c["nodes"])):
        if len(c["nodes"]) > 1:
            cc = copy.deepcopy(case)
            del cc["case"]["nodes"][i]
            yield cc
    if case.get("traced"):
        yield dict(copy.deepcopy(case), traced=False)


def label_requirements(tier: str) -> Dict[str, Any]:
    return {"way:reuse": 3, "way:fresh": 3, "way:launch": 3, "way:queue": 3}
