"""C03 — parameter sweeps expand to exactly the documented element sequence.

Generator: rich sweep specs (1..3 variables; linear/log ranges with/without endpoint; explicit
sequences in dict and bare-list form; from_context; both modes; broadcast; expressions over the
safe grammar; source / operation / probe; non-swept parameters in config / context / default)
embedded in a small surrounding pipeline. Oracle: the reference sweep expander inside M, compared
stepwise (element count, order, every element, typed collection class, probe list under the
context key with data passed through, <var>_values for every variable and every kind).
Both construction paths are exercised: the YAML-style ``derive.parameter_sweep`` block and the
Python API ``ParametricSweepFactory.create``.
"""
from __future__ import annotations

from typing import Any, Dict, List

from hypothesis import strategies as st

from ..core.campaign import run_campaign
from ..core.collect import Collector
from ..lib import gen, model as M, observe
from . import c01

ID = "C03"
LEVEL = "exploration"
RULE = ("Hypothesis-generated sweep nodes (1..3 variables x {linear,log range +-endpoint, explicit sequence in dict/list form, "
        "from_context} x {combinatorial, by_position} x broadcast x expressions x {source, operation, probe}) with non-swept "
        "parameters placed in config/context/default, inside a surrounding pipeline (source or payload before; slicer, sum, "
        "probe after), built through the YAML-style block and through ParametricSweepFactory.create; compared with the "
        "reference expander. non-trivial = >=2 variables or broadcast with unequal lengths or a log range or a non-swept "
        "parameter not in config; distinct = canonical JSON of the case")
ASSUMPTIONS = [
    "range-derived values are compared with rtol 1e-9 (own linspace/geometric progression vs numpy); sequence values exactly",
    "the 2-element numeric bare-list shorthand is not generated (the code reads [lo, hi] as a 10-step range, the docs call a list a sequence)",
    "expressions are drawn from a vetted sub-grammar and evaluated in the model with plain eval",
]

AFTER = {"Coll": [None, {"p": "slice:FloatMultiplyOperation:FloatDataCollection", "params": {"factor": 2.0}},
                  {"p": "FloatCollectionSumOperation"}, {"p": "slice:FloatCollectValueProbe:FloatDataCollection", "context_key": "k1"},
                  {"p": "slice:FloatAddOperation:FloatDataCollection"}],
         "Float": [None, {"p": "FloatCollectValueProbe", "context_key": "c"}, {"p": "FloatSquareOperation"},
                   {"p": "template:\"{t_values}\":out"}]}


@st.composite
def c03_case(draw):
    kind = draw(st.sampled_from(["source", "operation", "probe"]))
    wrapped = draw(st.sampled_from(gen.SWEEPABLE[kind]))
    sw = draw(gen.sweep_spec(wrapped, rich="numpy"))
    for v in sw["vars"].values():
        if v["kind"] == "values" and len(v["values"]) != 2 and draw(st.booleans()):
            v["form"] = "list"
    node: Dict[str, Any] = {"p": wrapped, "sweep": sw}
    if kind == "probe":
        node["context_key"] = draw(st.sampled_from(["out", "c", "p"]))
    ctx: Dict[str, Any] = {}
    params: Dict[str, Any] = {}
    desc = M.describe(node)
    for name, default in desc["params"]:
        is_ctx_key = any(v["kind"] == "ctx" and v["key"] == name for v in sw["vars"].values())
        place = draw(st.sampled_from(["config", "context", "context"] + (["default"] if default != M.NODEF else []) +
                                     ([] if is_ctx_key else ["missing"] * 0)))
        val = draw(st.lists(st.sampled_from(gen.FLOATS), min_size=1, max_size=4)) if is_ctx_key else draw(gen.value_for(name, bad=0.02))
        if is_ctx_key and draw(st.integers(0, 19)) == 0:
            val = draw(st.sampled_from([[], "abc", 2.0]))
        if place == "config":
            params[name] = val
        elif place == "context":
            ctx[name] = val
    if params:
        node["params"] = params
    for k in draw(st.lists(st.sampled_from(["t_values", "s_values", "a", "w_key", "factor"]), max_size=2, unique=True)):
        ctx.setdefault(k, draw(gen.value_for(k, bad=0)))
    nodes: List[Dict[str, Any]] = []
    data = M.NODATA
    if kind != "source":
        pre = draw(st.sampled_from(["payload", "FloatValueDataSource", "FloatDataSource"]))
        if pre == "payload":
            data = M.F(draw(gen.floats))
        elif pre == "FloatValueDataSource":
            nodes.append({"p": pre, "params": {"value": draw(st.sampled_from(gen.FLOATS))}})
        else:
            nodes.append({"p": pre})
    nodes.append(node)
    after = draw(st.sampled_from(AFTER["Float" if kind == "probe" else "Coll"]))
    if after:
        nodes.append(dict(after))
    return {"nodes": nodes, "ctx": ctx, "data": data, "api": draw(st.booleans())}


def sweep_labels(case) -> List[str]:
    node = next(n for n in case["nodes"] if n.get("sweep"))
    sw = node["sweep"]
    labs = ["kind:" + M.LIB[node["p"]]["kind"], "mode:" + sw["mode"], "nvars:%d" % len(sw["vars"])]
    lens = []
    for v in sw["vars"].values():
        labs.append("var:" + v["kind"] + (":" + v.get("scale", "") if v["kind"] == "range" else "") + (":list" if v.get("form") == "list" else ""))
        if v["kind"] == "values":
            lens.append(len(v["values"]))
        elif v["kind"] == "range":
            lens.append(v["steps"])
            if not v.get("endpoint", True):
                labs.append("no_endpoint")
    if sw["mode"] == "by_position" and len(set(lens)) > 1:
        labs.append("broadcast_cycling" if sw["broadcast"] else "unequal_rejected")
    if len(sw.get("params", {})) == 0:
        labs.append("no_expression")
    desc = M.describe(node)
    if any(name not in (node.get("params") or {}) for name, _ in desc["params"]):
        labs.append("nonswept_param_not_in_config")
    if case.get("api"):
        labs.append("path:python_api")
    else:
        labs.append("path:yaml_block")
    return labs


def nontrivial(labs: List[str]) -> bool:
    s = set(labs)
    return bool({"nvars:2", "nvars:3", "broadcast_cycling", "var:range:log", "nonswept_param_not_in_config"} & s)


def _api_pipeline(case):
    """Build the pipeline with the sweep class created through the Python API."""
    observe.ensure_registered()
    from semantiva.data_processors.parametric_sweep_factory import FromContext, ParametricSweepFactory, RangeSpec, SequenceSpec
    from semantiva.pipeline import Pipeline
    from semantiva.registry.processor_registry import ProcessorRegistry

    cfg = M.to_config(case)
    for c, n in zip(cfg, case["nodes"]):
        sw = n.get("sweep")
        if not sw:
            continue
        vars_ = {}
        for name, v in sw["vars"].items():
            if v["kind"] == "values":
                vars_[name] = SequenceSpec(M.real_values(v))
            elif v["kind"] == "ctx":
                vars_[name] = FromContext(v["key"])
            else:
                vars_[name] = RangeSpec(lo=v["lo"], hi=v["hi"], steps=v["steps"], scale=v.get("scale", "linear"), endpoint=v.get("endpoint", True))
        element = ProcessorRegistry.get_processor(n["p"])
        kind = {"source": "DataSource", "operation": "DataOperation", "probe": "DataProbe"}[M.LIB[n["p"]]["kind"]]
        coll = None if kind == "DataProbe" else ProcessorRegistry.get_processor(sw.get("collection", "FloatDataCollection"))
        cls = ParametricSweepFactory.create(element=element, element_kind=kind, collection_output=coll, vars=vars_,
                                            parametric_expressions=dict(sw.get("params", {})), mode=sw["mode"], broadcast=sw["broadcast"])
        c["processor"] = cls
        c.pop("derive", None)
    return Pipeline(cfg)


def check_case(case: Dict[str, Any], col: Collector) -> None:
    labs = sweep_labels(case)
    inner = Collector()
    if case.get("api"):
        try:
            pipe = _api_pipeline(case)
        except Exception as exc:  # noqa: BLE001 - construction rejected
            col.exclude(1, "api_not_constructible:" + type(exc).__name__)
            return
        _check_with_pipeline(case, inner, pipe)
    else:
        c01.check_case({k: case[k] for k in ("nodes", "ctx", "data")}, inner, count=False)
    if inner.excluded:
        col.exclude(inner.excluded, "not_constructible")
        return
    _rerun_same_object(case, inner, labs)
    m = M.run(case)
    labs.append("succeeds" if m["ok"] else "fails:" + m["fail"]["kind"])
    col.count(case, labs, nontrivial(labs))
    for b in inner.buckets.values():
        feats = dict(b["features"])
        feats["sweep_kind"] = next(l for l in labs if l.startswith("kind:"))
        col.add(b["check"], feats, case, b["observed"], b["expected"])


def _rerun_same_object(case, col, labs) -> None:
    """History: the SAME Pipeline object (hence the same generated sweep class) is run a second time with different
    from_context sequences / context parameters; run 2 must equal the reference expansion for run 2's context."""
    ctx2 = {}
    changed = False
    for k, v in (case.get("ctx") or {}).items():
        if isinstance(v, list) and v and all(isinstance(x, float) for x in v):
            ctx2[k] = [x + 1.0 for x in reversed(v)] + [7.0]
            changed = True
        elif isinstance(v, float):
            ctx2[k] = v + 0.5
            changed = True
        else:
            ctx2[k] = v
    if not changed:
        return
    labs.append("rerun_same_object_new_context")
    try:
        pipe = _api_pipeline(case) if case.get("api") else None
        if pipe is None:
            from semantiva.pipeline import Pipeline

            observe.ensure_registered()
            pipe = Pipeline(M.to_config(case))
    except Exception:  # noqa: BLE001
        return
    first = {k: case[k] for k in ("nodes", "ctx", "data")}
    observe.run_real(first, pipeline=pipe)
    second = {"nodes": case["nodes"], "ctx": ctx2, "data": case["data"]}
    tmp = Collector()
    _check_with_pipeline(second, tmp, pipe)
    for b in tmp.buckets.values():
        col.add("second_run_of_same_pipeline:" + b["check"], b["features"], dict(case, second_ctx=ctx2), b["observed"], b["expected"])


def _check_with_pipeline(case, col, pipe):
    """c01.check_case with a pre-built pipeline object (Python API path)."""
    orig = observe.run_real

    def patched(c, trace=None, pipeline=None):
        return orig(c, trace=trace, pipeline=pipe)

    observe.run_real = patched
    try:
        c01.check_case({k: case[k] for k in ("nodes", "ctx", "data")}, col, count=False)
    finally:
        observe.run_real = orig


def plan(tier: str, seed: int, scale: float = 1.0) -> List[Dict[str, Any]]:
    nshards, n = (32, 250) if tier == "quick" else (256, 250)
    return [{"seed": seed * 6151 + i, "n": max(10, int(n * scale)), "timeout": 900} for i in range(nshards)]


def run_shard(spec: Dict[str, Any]) -> Dict[str, Any]:
    col = Collector()
    run_campaign(c03_case(), lambda c: check_case(c, col), spec["n"], spec["seed"])
    return col.result()


def replay(case: Dict[str, Any]) -> List[Dict[str, Any]]:
    col = Collector()
    check_case(case, col)
    return [{"check": b["check"], "features": b["features"], "observed": b["observed"], "expected": b["expected"],
             "case": b["case"]} for b in col.buckets.values()]


def valid(case: Any) -> bool:
    try:
        return c01.valid(case) and sum(1 for n in case["nodes"] if n.get("sweep")) == 1
    except Exception:
        return False


def label_requirements(tier: str) -> Dict[str, Any]:
    return {"kind:source": 0.2, "kind:operation": 0.2, "kind:probe": 0.2, "mode:combinatorial": 0.3, "mode:by_position": 0.3,
            "broadcast_cycling": 0.025, "unequal_rejected": 0.02, "var:range:log": 0.05, "var:ctx": 0.08, "no_endpoint": 0.05,
            "path:python_api": 0.3, "path:yaml_block": 0.3, "succeeds": 0.4, "var:values:list": 0.05,
            "rerun_same_object_new_context": 0.3}
