"""C04 — configuration identities are pure functions of configuration meaning."""
from __future__ import annotations

import contextlib
import copy
import hashlib
import io
import json
import os
import random
import re
import shutil
import tempfile
import time
from typing import Any, Dict, List, Optional

import yaml
from hypothesis import strategies as st

from ..core.collect import Collector, canon, short_hash
from ..lib import gen, model as M, observe, tracelib, yamlrw

ID = "C04"
LEVEL = "exploration"
RULE = ("Hypothesis-generated configurations (generator G incl. sweeps, optional run_space block) rendered as YAML x "
        "meaning-preserving rewrites {mapping key order at every depth, flow/block style, quoting, float/bool spellings, "
        "anchors/aliases, comments/blank lines/---/indent, +/* operand reordering in sweep expressions} (guarded by type-strict "
        "reload equality) x observation paths {build_inspection_payload, Pipeline construction + compute_pipeline_id, "
        "pipeline_start of a traced run (also a second run of the same Pipeline object), `semantiva inspect [--extended]` "
        "stdout} x child processes differing in PYTHONHASHSEED {0,1,4242,random}, TZ, cwd, shifted time.time and processing "
        "order (forward / reverse = different prior history), plus re-observation of the first configurations at the end of "
        "each process. non-trivial = a rewrite changed the text and the configuration has >= 2 nodes with parameters or a "
        "sweep; distinct = canonical JSON of the configuration")
ASSUMPTIONS = [
    "a rewrite is only used when yaml.safe_load(rewritten) equals the original type-strictly modulo +/* commutation in sweep expressions",
    "the clock variant shifts time.time() only (datetime.now is a C type); identities must not read any clock",
    "run identifiers (run_id, launch ids, timestamps) are not part of the identity record",
]

VARIANTS = [
    {"tag": "hs0_utc_fwd", "env": {"PYTHONHASHSEED": "0", "TZ": "UTC"}, "reverse": False, "clock": 0},
    {"tag": "hs1_tokyo_rev", "env": {"PYTHONHASHSEED": "1", "TZ": "Asia/Tokyo"}, "reverse": True, "clock": 0},
    {"tag": "hs4242_clock_fwd", "env": {"PYTHONHASHSEED": "4242", "TZ": "America/Los_Angeles"}, "reverse": False, "clock": 200 * 86400},
    {"tag": "hsrandom_rev", "env": {"PYTHONHASHSEED": "random", "TZ": "Asia/Kathmandu"}, "reverse": True, "clock": -90 * 86400},
]

KIND_CHOICES = [[k] for k in yamlrw.REWRITE_KINDS] + [["permute_keys", "flow"], ["permute_keys", "commute_expr", "comments"],
                                                      ["anchors", "quote_strings"], ["float_spelling", "indent", "doc_start"]]


@st.composite
def config_case(draw):
    g = draw(gen.case(max_nodes=6, rare=False, rich_sweeps=True))
    nodes = g["nodes"]
    # two from_context variables in one sweep (mapping order of `variables` matters for F7)
    if draw(st.integers(0, 5)) == 0:
        wrapped = draw(st.sampled_from(gen.SWEEPABLE["operation"]))
        p0 = M.LIB[wrapped]["params"][0][0]
        nodes.append({"p": wrapped, "sweep": {"vars": {"t": {"kind": "ctx", "key": "seq"}, "s": {"kind": "ctx", "key": "t_values"}},
                                                "params": {p0: draw(st.sampled_from(gen.EXPRS2)).format(v="t", u="s")},
                                                "mode": "by_position", "broadcast": True, "collection": "FloatDataCollection"}})
    # a sweep whose expression hinges on operand order (non-commutative operators, chained comparisons, conditionals)
    if draw(st.sampled_from([False, True, False, False])):
        wrapped = draw(st.sampled_from(gen.SWEEPABLE["operation"]))
        p0 = M.LIB[wrapped]["params"][0][0]
        nodes.append({"p": wrapped, "sweep": {"vars": {"t": {"kind": "values", "values": [1.0, 2.0]}, "s": {"kind": "values", "values": [0.5, 3.0]}},
                                                "params": {p0: draw(st.sampled_from(gen.EXPRS2_SEMANTIC)).format(v="t", u="s")},
                                                "mode": "combinatorial", "broadcast": False, "collection": "FloatDataCollection"}})
    # nested parameter values
    if draw(st.integers(0, 4)) == 0:
        nodes.append({"p": "VNestedParamOp", "params": {"opts": {"k": draw(gen.floats), "deep": {"a": [1.0, {"b": draw(st.sampled_from(["x", "y"]))}], "flag": draw(st.booleans())},
                                                             # plain scalars that YAML 1.1 reads as strings and YAML 1.2 as floats
                                                             "sci": draw(st.sampled_from(["1e3", "2.5e6", ".5e2", "1E3", "x"]))}}})
    rs = None
    if draw(st.booleans()):
        blocks = []
        used = set()
        for _ in range(draw(st.integers(1, 2))):
            keys = [k for k in draw(st.lists(st.sampled_from(["factor", "addend", "a", "b", "value"]), min_size=1, max_size=2, unique=True)) if k not in used]
            if not keys:
                continue
            used.update(keys)
            n = draw(st.integers(1, 3))
            blocks.append({"mode": draw(st.sampled_from(["by_position", "combinatorial"])),
                           "context": {k: [draw(st.sampled_from(gen.FLOATS)) for _ in range(n)] for k in keys}})
        rs = {"combine": draw(st.sampled_from(["combinatorial", "by_position"])), "max_runs": draw(st.sampled_from([10, 100, 1000])), "blocks": blocks}
    null_parameters = draw(st.sampled_from([False, True, False]))
    rewrites = [{"seed": draw(st.integers(0, 2 ** 31)), "kinds": draw(st.sampled_from(KIND_CHOICES))} for _ in range(4)]
    if any(n.get("sweep") and n["sweep"].get("params") for n in nodes):
        rewrites[0]["kinds"] = ["commute_expr", "permute_keys"]
    return {"nodes": nodes, "run_space": rs, "rewrites": rewrites, "null_parameters": null_parameters}


def to_mapping(case: Dict[str, Any]) -> Dict[str, Any]:
    cfg: Dict[str, Any] = {"extensions": ["verif.lib.components"], "pipeline": {"nodes": M.to_config(case)}}
    if case.get("null_parameters"):
        # `parameters:` written without a value (YAML null) on nodes that have none
        for n in cfg["pipeline"]["nodes"]:
            if "parameters" not in n:
                n["parameters"] = None
    if case.get("run_space"):
        cfg["run_space"] = copy.deepcopy(case["run_space"])
    return cfg


def h(obj: Any) -> str:
    return hashlib.sha256(json.dumps(obj, sort_keys=True, default=repr).encode()).hexdigest()[:16]


def identity_record(cfg: Dict[str, Any]) -> Dict[str, Any]:
    """Everything the property lists, through build_inspection_payload and Pipeline construction."""
    from semantiva.inspection import build_inspection_payload
    from semantiva.pipeline import Pipeline
    from semantiva.pipeline.graph_builder import compute_pipeline_id

    observe.ensure_registered()
    rec: Dict[str, Any] = {}
    try:
        payload = build_inspection_payload(copy.deepcopy(cfg))
        rec["payload"] = payload
        rec["semantic_id"] = payload["identity"]["semantic_id"]
        rec["config_id"] = payload["identity"]["config_id"]
        rec["run_space_spec_id"] = (payload["identity"].get("run_space") or {}).get("spec_id")
        rec["uuids"] = [n["uuid"] for n in payload["pipeline_spec_canonical"]["nodes"]]
        rec["node_semantic_ids"] = [n["node_semantic_id"] for n in payload["pipeline_spec_canonical"]["nodes"]]
        rec["required_context_keys"] = payload["required_context_keys"]
    except Exception as exc:  # noqa: BLE001 - construction may legitimately be rejected; must then be rejected everywhere
        rec["payload_error"] = type(exc).__name__
    try:
        p = Pipeline(copy.deepcopy(cfg["pipeline"]["nodes"]))
        rec["pipeline_uuids"] = [n["node_uuid"] for n in p.canonical_spec["nodes"]]
        rec["pipeline_id"] = compute_pipeline_id(p.canonical_spec)
    except Exception as exc:  # noqa: BLE001
        rec["pipeline_error"] = type(exc).__name__
    return rec


FIELDS = ["semantic_id", "config_id", "run_space_spec_id", "uuids", "node_semantic_ids", "required_context_keys", "payload",
          "pipeline_uuids", "pipeline_id", "payload_error", "pipeline_error"]


def diff_fields(a: Dict[str, Any], b: Dict[str, Any]) -> List[str]:
    return [f for f in FIELDS if a.get(f) != b.get(f)]


def traced_start(cfg: Dict[str, Any], tdir: str, pipeline=None):
    from semantiva.pipeline import Payload, Pipeline
    from semantiva.trace.drivers.jsonl import JsonlTraceDriver

    path = os.path.join(tdir, f"t{len(os.listdir(tdir))}.ser.jsonl")
    drv = JsonlTraceDriver(path, detail="hash")
    if pipeline is None:
        pipeline = Pipeline(copy.deepcopy(cfg["pipeline"]["nodes"]), trace=drv)
    else:
        pipeline.trace = drv
    try:
        pipeline.process(Payload(None, {"seq": [1.0, 2.0], "t_values": [1.0], "factor": 2.0, "addend": 1.0, "value": 1.0, "w": 1.0, "divisor": 2.0, "p": 1.0}))
    except BaseException:  # noqa: BLE001 - only pipeline_start matters here
        pass
    recs = tracelib.read_jsonl(path)["records"] if os.path.exists(path) else []
    start = next((r for r in recs if r.get("record_type") == "pipeline_start"), None)
    return start, pipeline


INSPECT_RE = {"semantic_id": re.compile(r"Semantic ID:\s*(\S+)"), "config_id": re.compile(r"Config ID:\s*(\S+)"),
              "run_space_spec_id": re.compile(r"Run-Space Config ID:\s*(\S+)")}


def cli_inspect(path: str, extended: bool) -> Dict[str, Any]:
    import semantiva.cli as cli

    out, err = io.StringIO(), io.StringIO()
    code = 0
    with contextlib.redirect_stdout(out), contextlib.redirect_stderr(err):
        try:
            cli.main(["inspect", path] + (["--extended"] if extended else []))
        except SystemExit as exc:
            code = exc.code if isinstance(exc.code, int) else 1
    text = out.getvalue()
    res: Dict[str, Any] = {"code": code}
    for k, rx in INSPECT_RE.items():
        mm = rx.search(text)
        res[k] = mm.group(1) if mm and mm.group(1).lower() != "none" else None
    mm = re.search(r"^Required Context Keys:\s*(.*)$", text, re.M)
    if mm:
        v = mm.group(1).strip()
        res["required_context_keys"] = [] if v.lower() in ("", "none") else [x.strip() for x in v.split(",")]
    if extended:
        res["uuids"] = re.findall(r"- UUID:\s*(\S+)", text)
        res["node_semantic_ids"] = re.findall(r"- Node Semantic ID:\s*(\S+)", text)
    return res


def check_case(case: Dict[str, Any], col: Collector, tdir: str, light: bool = False) -> Dict[str, Any]:
    cfg = to_mapping(case)
    base = identity_record(cfg)
    rep = {k: case.get(k) for k in ("nodes", "run_space", "rewrites", "null_parameters")}
    labs = ["sweep" if any(n.get("sweep") for n in case["nodes"]) else "no_sweep", "run_space" if case.get("run_space") else "no_run_space"]
    if case.get("twin"):
        labs.append("name_twin" if case["twin"] == "name" else "retyped_twin")
    two_ctx = any(sum(1 for v in n["sweep"]["vars"].values() if v["kind"] == "ctx") >= 2 for n in case["nodes"] if n.get("sweep"))
    if two_ctx:
        labs.append("two_from_context_vars")
    if "payload_error" in base:
        labs.append("payload_error")
    base_text = yaml.safe_dump(cfg, sort_keys=False)
    changed_any = False
    for rw in case.get("rewrites", []):
        rnd = random.Random(rw["seed"])
        res = yamlrw.rewrite(cfg, rnd, list(rw["kinds"]))
        if res is None:
            col.exclude(1, "rewrite_rejected_by_guard")
            continue
        text, kinds = res
        if text != base_text:
            changed_any = True
        for k in kinds:
            labs.append("rewrite:" + k)
        if "commute_expr" in kinds and yaml.safe_load(text) != yaml.safe_load(base_text):
            labs.append("expression_commuted")
        got = identity_record(yaml.safe_load(text))
        d = diff_fields(base, got)
        if d:
            col.add("identity_changes_under_rewrite", {"kinds": "+".join(sorted(kinds)), "fields": [f for f in d if f != "payload"][:3] or d[:1],
                                                       "two_from_context_vars": two_ctx}, rep,
                    observed={f: got.get(f) for f in d if f != "payload"}, expected={f: base.get(f) for f in d if f != "payload"})
    # inspection vs Pipeline construction
    if "uuids" in base and "pipeline_uuids" in base and base["uuids"] != base["pipeline_uuids"]:
        col.add("uuid_differs_between_inspection_and_pipeline", {}, rep, base["pipeline_uuids"], base["uuids"])
    if "uuids" in base and len(set(base["uuids"])) != len(base["uuids"]):
        col.add("duplicate_node_uuid", {}, rep, base["uuids"])
    if not light and "payload_error" not in base and "pipeline_error" not in base:
        # traced run: pipeline_start identities, twice through the same Pipeline object
        start1, pipe = traced_start(cfg, tdir)
        start2, _ = traced_start(cfg, tdir, pipeline=pipe)
        labs.append("pipeline_object_reused")
        for tag, start in (("first_run", start1), ("reused_object", start2)):
            if start is None:
                col.add("no_pipeline_start", {"run": tag}, rep)
                continue
            meta = start.get("meta", {})
            got = {"pipeline_id": start.get("pipeline_id"), "semantic_id": meta.get("semantic_id"), "config_id": meta.get("config_id"),
                   "uuids": [n.get("node_uuid") for n in (start.get("pipeline_spec_canonical") or {}).get("nodes", [])],
                   "node_semantic_ids": [meta.get("node_semantic_ids", {}).get(u, "none") for u in base["uuids"]]}
            for f in got:
                if got[f] != base.get(f):
                    col.add("pipeline_start_differs_from_inspection", {"field": f, "run": tag, "has_sweep": "sweep" in labs}, rep, got[f], base.get(f))
        # CLI inspect stdout
        path = os.path.join(tdir, "cfg.yaml")
        with open(path, "w") as fh:
            fh.write(base_text)
        for ext in (False, True):
            got = cli_inspect(path, ext)
            for f in ("semantic_id", "config_id", "run_space_spec_id", "required_context_keys", "uuids", "node_semantic_ids"):
                if f in got and got[f] != base.get(f) and not (f == "run_space_spec_id" and got[f] is None and base.get(f) is None):
                    col.add("inspect_stdout_differs_from_payload", {"field": f, "extended": ext}, rep, got[f], base.get(f))
        # the YAML loader path (what `semantiva run` builds its Pipeline from)
        try:
            from semantiva.configurations.load_pipeline_from_yaml import load_pipeline_from_yaml
            from semantiva.pipeline import Pipeline
            from semantiva.pipeline.graph_builder import compute_pipeline_id

            loaded = load_pipeline_from_yaml(path)
            lp = Pipeline(loaded.nodes)
            got_l = {"pipeline_uuids": [n["node_uuid"] for n in lp.canonical_spec["nodes"]], "pipeline_id": compute_pipeline_id(lp.canonical_spec)}
            for f in got_l:
                if got_l[f] != base.get(f):
                    col.add("yaml_loader_pipeline_differs_from_inspection", {"field": f, "null_parameters": bool(case.get("null_parameters"))}, rep, got_l[f], base.get(f))
        except Exception as exc:  # noqa: BLE001
            col.add("yaml_loader_rejects_inspectable_configuration", {"exc": type(exc).__name__}, rep, repr(exc)[:160])
        labs.append("path:trace+cli")
        if case.get("null_parameters"):
            labs.append("null_parameters")
    nparams = sum(1 for n in case["nodes"] if n.get("params") or n.get("sweep"))
    col.count(rep, labs, changed_any and (nparams >= 2 or "sweep" in labs))
    return base


def _retype(obj: Any) -> Any:
    """Integral floats -> ints: a DIFFERENT configuration (1 != 1.0 type-strictly) that is ==-equal value by value."""
    if isinstance(obj, dict):
        return {k: _retype(v) for k, v in obj.items()}
    if isinstance(obj, list):
        return [_retype(v) for v in obj]
    if isinstance(obj, float) and abs(obj) < 1e6 and obj == int(obj):
        return int(obj)
    return obj


def _with_retyped_twins(cases: List[Dict[str, Any]]) -> List[Dict[str, Any]]:
    """History dimension: a numerically equal but differently typed twin is observed next to some configurations.
    Neither identity may depend on which of the two was seen first (the process variants use opposite orders)."""
    out: List[Dict[str, Any]] = []
    for i, c in enumerate(cases):
        out.append(c)
        if i % 3 == 0:
            twin = copy.deepcopy(c)
            changed = False
            for n in twin["nodes"]:
                sw = n.get("sweep")
                if sw:
                    for spec in sw["vars"].values():
                        if spec["kind"] == "values":
                            new = _retype(spec["values"])
                            changed = changed or repr(new) != repr(spec["values"])
                            spec["values"] = new
                if n.get("params") and n["p"] == "VNestedParamOp":
                    new = _retype(n["params"])
                    changed = changed or repr(new) != repr(n["params"])
                    n["params"] = new
            if changed:
                twin["twin"] = True
                out.append(twin)
    return out


def _toggle_sep(key: str) -> str:
    return key.replace("_", "\0").replace(".", "_").replace("\0", ".")


def _with_name_twins(cases: List[Dict[str, Any]]) -> List[Dict[str, Any]]:
    """History dimension: configurations whose generated context-processor classes get the same *name* although
    they mean different things (dotted vs underscored keys; `a_to_b -> c` vs `a -> b_to_c`) are observed next to
    each other, in opposite orders in the process variants.  Each is its own configuration; none may be served
    something left behind by the other."""
    out: List[Dict[str, Any]] = []
    for i, c in enumerate(cases):
        out.append(c)
        if i % 3 != 1 or c.get("twin"):
            continue
        for j, n in enumerate(c["nodes"]):
            mr = M.RE_RENAME.match(n["p"]) if not n.get("sweep") else None
            md = M.RE_DELETE.match(n["p"]) if not n.get("sweep") else None
            twins: List[str] = []
            if mr:
                src, dst = mr["src"], mr["dst"]
                if _toggle_sep(src) != src or _toggle_sep(dst) != dst:
                    twins.append(f"rename:{_toggle_sep(src)}:{_toggle_sep(dst)}")
                twins += [f"rename:{src}_to_{dst}:z", f"rename:{src}:{dst}_to_z"]
            elif md and _toggle_sep(md["key"]) != md["key"]:
                twins.append(f"delete:{_toggle_sep(md['key'])}")
            elif md:
                twins += [f"delete:{md['key']}.x", f"delete:{md['key']}_x"]
            for t in twins:
                twin = copy.deepcopy(c)
                twin["nodes"][j] = dict(twin["nodes"][j], p=t)
                twin["twin"] = "name"
                out.append(twin)
            if twins:
                break
    return out


def plan(tier: str, seed: int, scale: float = 1.0) -> List[Dict[str, Any]]:
    groups, n = (8, 90) if tier == "quick" else (40, 160)
    specs = []
    for g in range(groups):
        for vi, v in enumerate(VARIANTS):
            specs.append({"seed": seed * 1013 + g, "n": max(8, int(n * scale)), "variant": vi, "env": dict(v["env"]), "timeout": 900})
    return specs


def run_shard(spec: Dict[str, Any]) -> Dict[str, Any]:
    import hypothesis
    from hypothesis import HealthCheck, Phase, given, settings

    v = VARIANTS[spec["variant"]]
    time.tzset()
    if v["clock"]:
        real_time = time.time
        time.time = lambda: real_time() + v["clock"]  # type: ignore[assignment]
    cases: List[Dict[str, Any]] = []

    @hypothesis.seed(spec["seed"])
    @settings(max_examples=spec["n"], database=None, deadline=None, derandomize=False, phases=[Phase.generate],
              suppress_health_check=list(HealthCheck))
    @given(config_case())
    def collect(c):
        cases.append(c)

    collect()
    cases = _with_name_twins(_with_retyped_twins(cases))
    # always present: sweep expressions made of nested commutative groups (sums of products, products of sums, chains inside
    # calls), each rewritten four times with operand order and association changed
    for k, expr in enumerate(["2.0 * t + s * 3.0", "(t + 1.0) * (2.0 + s)", "t * s * 2.0 + (s + t) * 0.5", "max(t + s, 0.5) * (s + 1.0)",
                              "(t * 2.0 + 1.0) + (3.0 + s * t)", "round(t * s, ndigits=int(1.0 + t + s))", "max(0.5, s + t) if t * s > 1.0 + s else s + t"]):
        cases.append({"nodes": [{"p": "FloatDataSource"},
                                {"p": "FloatMultiplyOperation", "sweep": {"vars": {"t": {"kind": "values", "values": [1.0, 2.0]}, "s": {"kind": "values", "values": [0.5, 3.0]}},
                                                                           "params": {"factor": expr}, "mode": "combinatorial", "broadcast": False,
                                                                           "collection": "FloatDataCollection"}}],
                      "run_space": None, "null_parameters": False,
                      "rewrites": [{"seed": 1000 * k + j, "kinds": ["commute_expr"]} for j in range(4)]})
    # always present: required context keys that are equal ignoring case (their reported order must not depend on the hash seed)
    cases.append({"nodes": [{"p": "FloatDataSource"}] + [{"p": f"rename:{k}:dst_{i}"} for i, k in enumerate(["K1", "k1", "Out", "out", "Seq", "seq", "A", "a"])],
                  "run_space": None, "rewrites": [], "null_parameters": False})
    # always present: a long (>= 32 values) integral sequence and its retyped twin, so that anything that memoises long
    # sequences by value is seen with both spellings in both orders
    for nvals in (32, 40):
        long_case = {"nodes": [{"p": "FloatValueDataSource", "sweep": {"vars": {"t": {"kind": "values", "values": [float(i) for i in range(nvals)]}},
                                                                  "params": {"value": "2.0 * t"}, "mode": "combinatorial", "broadcast": False,
                                                                  "collection": "FloatDataCollection"}}],
                     "run_space": None, "rewrites": [], "null_parameters": False}
        twin = copy.deepcopy(long_case)
        twin["nodes"][0]["sweep"]["vars"]["t"]["values"] = [int(x) for x in twin["nodes"][0]["sweep"]["vars"]["t"]["values"]]
        twin["twin"] = True
        cases += [long_case, twin]
    order = list(reversed(cases)) if v["reverse"] else list(cases)
    col = Collector()
    tdir = tempfile.mkdtemp(prefix="c04-", dir=spec.get("workdir", "."))
    records = []
    first: Dict[str, Dict[str, Any]] = {}
    try:
        for i, c in enumerate(order):
            sub = os.path.join(tdir, str(i))
            os.makedirs(sub)
            base = check_case(c, col, sub, light=(i % 2 == 1))
            shutil.rmtree(sub, ignore_errors=True)
            ch = short_hash({k: c.get(k) for k in ("nodes", "run_space", "null_parameters")})
            records.append([ch, {f: h(base.get(f)) for f in FIELDS}, v["tag"]])
            if len(first) < 12:
                first[ch] = base
        # history: re-observe the first configurations after everything else ran in this interpreter
        for c in order[:12]:
            ch = short_hash({k: c.get(k) for k in ("nodes", "run_space", "null_parameters")})
            again = identity_record(to_mapping(c))
            d = diff_fields(first[ch], again)
            col.labels["history_reobserved"] += 1
            if d:
                col.add("identity_changes_with_history", {"fields": d[:3]}, {k: c.get(k) for k in ("nodes", "run_space", "rewrites", "null_parameters")},
                        {f: again.get(f) for f in d if f != "payload"}, {f: first[ch].get(f) for f in d if f != "payload"})
    finally:
        shutil.rmtree(tdir, ignore_errors=True)
    col.extra["records"] = records
    if spec["variant"] == 0:
        col.extra["cases"] = [[short_hash({k: c.get(k) for k in ("nodes", "run_space", "null_parameters")}), {k: c.get(k) for k in ("nodes", "run_space", "rewrites", "null_parameters")}] for c in cases]
    return col.result()


def finalize(m: Dict[str, Any]) -> List[Dict[str, Any]]:
    """Cross-process comparison: the same configuration must yield the same record in every child."""
    by_case: Dict[str, Dict[str, Dict[str, str]]] = {}
    for ch, fields, tag in m["extra"].get("records", []):
        by_case.setdefault(ch, {})[tag] = fields
    cases = dict((c[0], c[1]) for c in m["extra"].get("cases", []))
    out = []
    compared = 0
    for ch, per in by_case.items():
        if len(per) < 2:
            continue
        compared += 1
        ref_tag = sorted(per)[0]
        for tag, fields in per.items():
            d = [f for f in FIELDS if fields.get(f) != per[ref_tag].get(f)]
            if d:
                out.append({"check": "identity_differs_across_processes", "features": {"fields": d[:3], "env": tag}, "count": 1,
                            "case": cases.get(ch, {"case_hash": ch}), "size": len(canon(cases.get(ch, {}))), "observed": fields, "expected": per[ref_tag]})
    m["extra"] = {"cross_process_configs_compared": compared, "process_variants": [v["tag"] for v in VARIANTS]}
    return out


def replay(case: Dict[str, Any]) -> List[Dict[str, Any]]:
    col = Collector()
    tdir = tempfile.mkdtemp(prefix="c04r-")
    try:
        check_case(case, col, tdir)
    finally:
        shutil.rmtree(tdir, ignore_errors=True)
    return [{"check": b["check"], "features": b["features"], "observed": b["observed"], "expected": b["expected"],
             "case": b["case"]} for b in col.buckets.values()]


def valid(case: Any) -> bool:
    from .c01 import valid as v1

    try:
        return v1({"nodes": case["nodes"], "ctx": {}, "data": M.NODATA}) and isinstance(case.get("rewrites", []), list)
    except Exception:
        return False


def label_requirements(tier: str) -> Dict[str, Any]:
    req: Dict[str, Any] = {"sweep": 0.2, "run_space": 0.2, "two_from_context_vars": 0.05, "pipeline_object_reused": 0.3,
                           "history_reobserved": 40, "expression_commuted": 0.03, "retyped_twin": 0.03, "name_twin": 0.02}
    for k in yamlrw.REWRITE_KINDS:
        req["rewrite:" + k] = 0.08
    return req
