"""C15 — every queued job's future completes once, with that job's own result."""
from __future__ import annotations

import copy
import os
import shutil
import tempfile
import sys
import threading
import time
from typing import Any, Dict, List, Optional

import yaml
from hypothesis import strategies as st

from ..core.campaign import run_campaign
from ..core.collect import Collector
from ..lib import model as M, observe

ID = "C15"
LEVEL = "exploration"
RULE = ("Hypothesis-generated job batches (1..8 jobs quick, 1..40 thorough) with pairwise distinct pipelines and payloads (job k "
        "multiplies its payload by the k-th prime and probes the result; payload kinds float / collection of 0..3 elements / none) "
        "x 1..4 worker threads x sys.setswitchinterval in {1e-6,1e-5,1e-4,5e-3} x enqueue timing (before/after the master and "
        "workers start, generated pauses) x an optional failing job (division by zero) at a generated batch position; real "
        "master / worker threads over the real in-memory transport with a recording executor. Oracle: each future's (data, "
        "context) equals the direct Pipeline run plus the job_id annotation, exactly one status publication per job, master "
        "alive; a failing job's future completes exceptionally; 'never completes' is decided by quiescence. non-trivial = >= 2 "
        "jobs and >= 2 workers, or a failing job; distinct = canonical JSON of the batch")
ASSUMPTIONS = [
    "the schedule is perturbed (switch interval, pauses, worker count), not owned: rare interleavings are out of reach (the transport underneath is covered by C14)",
    "quiescence = job queue empty, every transport queue empty, executor idle, and the observable state unchanged for 3 s (the master polls every 0.2 s); a pending future in a quiescent system can never complete; batches not quiescent after 60 s are counted inconclusive",
    "transport queues are inspected through the private _queues mapping of InMemorySemantivaTransport (observation only)",
]

PRIMES = [2.0, 3.0, 5.0, 7.0, 11.0, 13.0, 17.0, 19.0, 23.0, 29.0, 31.0, 37.0, 41.0, 43.0, 47.0, 53.0, 59.0, 61.0, 67.0, 71.0,
          73.0, 79.0, 83.0, 89.0, 97.0, 101.0, 103.0, 107.0, 109.0, 113.0, 127.0, 131.0, 137.0, 139.0, 149.0, 151.0, 157.0, 163.0, 167.0, 173.0]


@st.composite
def c15_case(draw, max_jobs: int = 8):
    n = draw(st.integers(1, max_jobs))
    jobs = []
    for k in range(n):
        kind = draw(st.sampled_from(["float", "float", "collection", "none"]))
        if kind == "collection":
            payload = M.C([float(k + 1 + j) for j in range(draw(st.integers(0, 3)))])
        elif kind == "float":
            payload = M.F(float(k + 1))
        else:
            payload = M.NONE
        jobs.append({"kind": kind, "payload": payload, "pause_ms": draw(st.sampled_from([0, 0, 0, 1, 5, 30])),
                     "before_start": draw(st.booleans()),
                     # the three documented ways of handing a pipeline to enqueue()
                     "form": draw(st.sampled_from(["list", "yaml", "list", "pipeline", "list"]))})
    fail_at = draw(st.sampled_from([None, None] + list(range(n))))
    fail_also = draw(st.sampled_from([None] + list(range(n)))) if fail_at is not None else None  # a second failing job in the same batch
    return {"jobs": jobs, "fail_at": fail_at, "fail_also": fail_also, "odd_ctx": draw(st.sampled_from([None] * 3 + observe.ODD_NAMES)), "workers": draw(st.integers(1, 4)),
            "switch": draw(st.sampled_from([1e-6, 1e-5, 1e-4, 5e-3])),
            "fail_kind": draw(st.sampled_from(["divide", "yaml_missing", "value_empty", "cfg_not_nodes", "assert_empty", "yaml_invalid", "runtime", "divide"])),
            "enqueue_stall_ms": draw(st.sampled_from([0, 0, 0, 400])), "yaml_reuse": draw(st.sampled_from([False, True])), "shared_pipeline": draw(st.sampled_from([False, True, False]))}


def job_config(k: int, job: Dict[str, Any], failing: bool, fail_kind: str = "divide") -> List[Dict[str, Any]]:
    p = PRIMES[k % len(PRIMES)]
    if failing and fail_kind in ("yaml_missing", "yaml_invalid", "cfg_not_nodes"):
        failing = False  # the pipeline itself is fine; it is the job that cannot be loaded (see run_batch.enqueue)
    if failing and fail_kind != "divide" and job["kind"] != "collection":
        # the pipeline raises a pre-built exception object; some have an empty message (str(exc) == "")
        first = [{"processor": "FloatValueDataSource", "parameters": {"value": p}}] if job["kind"] == "none" else []
        return first + [{"processor": "FloatMultiplyOperation", "parameters": {"factor": p}},
                        {"processor": "VRaiseOp", "parameters": {"kind": fail_kind}},
                        {"processor": "FloatCollectValueProbe", "context_key": "r"}]
    if job["kind"] == "float":
        cfg = [{"processor": "FloatMultiplyOperation", "parameters": {"factor": p}}]
        if failing:
            cfg.append({"processor": "FloatDivideOperation", "parameters": {"divisor": 0.0}})
        cfg.append({"processor": "FloatCollectValueProbe", "context_key": "r"})
    elif job["kind"] == "collection":
        cfg = [{"processor": "slice:FloatMultiplyOperation:FloatDataCollection", "parameters": {"factor": p}}]
        if failing:
            cfg.append({"processor": "slice:FloatDivideOperation:FloatDataCollection", "parameters": {"divisor": 0.0}})
            cfg.append({"processor": "FloatDataSink"})  # type gate: a collection is not a float (fails even when empty)
        cfg.append({"processor": "slice:FloatCollectValueProbe:FloatDataCollection", "context_key": "r"})
    else:
        cfg = [{"processor": "FloatValueDataSource", "parameters": {"value": p}}]
        if failing:
            cfg.append({"processor": "FloatDivideOperation", "parameters": {"divisor": 0.0}})
        cfg.append({"processor": "FloatCollectValueProbe", "context_key": "r"})
    return cfg


def run_batch(case: Dict[str, Any]) -> Dict[str, Any]:
    observe.ensure_registered()
    from semantiva.context_processors import ContextType
    from semantiva.execution.executor.executor import SemantivaExecutor, SequentialSemantivaExecutor
    from semantiva.execution.job_queue.queue_orchestrator import QueueSemantivaOrchestrator
    from semantiva.execution.job_queue.worker import worker_loop
    from semantiva.execution.transport.in_memory import InMemorySemantivaTransport
    from semantiva.logger import Logger
    from semantiva.pipeline import Payload, Pipeline

    status_pubs: List[str] = []
    cfg_ids: Dict[Any, str] = {}
    lock = threading.Lock()

    class CountingTransport(InMemorySemantivaTransport):
        def publish(self, channel, data, context, metadata=None, require_ack=False):
            if channel.endswith(".status"):
                with lock:
                    status_pubs.append(channel.split(".")[1])
            elif channel.endswith(".cfg"):
                try:
                    cfg_ids[context.get_value("tag")] = channel.split(".")[1]
                except Exception:  # noqa: BLE001
                    pass
            return super().publish(channel, data, context, metadata=metadata, require_ack=require_ack)

    active = [0]
    started = [0]

    class RecordingExecutor(SequentialSemantivaExecutor):
        def submit(self, fn, *args, ser_hooks=None, **kwargs):
            with lock:
                active[0] += 1
                started[0] += 1
            try:
                return super().submit(fn, *args, ser_hooks=ser_hooks, **kwargs)
            finally:
                with lock:
                    active[0] -= 1

    stall = case.get("enqueue_stall_ms", 0) / 1000.0

    class StallingLogger(Logger):
        """The caller's logging may be slow: the thread calling enqueue() is held up while it logs 'Enqueued job'."""

        def info(self, msg, *a, **kw):  # noqa: D401
            if stall and isinstance(msg, str) and msg.startswith("Enqueued job") and threading.current_thread() is threading.main_thread() is False:
                time.sleep(stall)
            if stall and isinstance(msg, str) and msg.startswith("Enqueued job"):
                time.sleep(stall)

        def debug(self, *a, **kw):
            return None

    logger = Logger(level="CRITICAL")
    master_logger = StallingLogger(level="CRITICAL") if stall else logger
    old_switch = sys.getswitchinterval()
    sys.setswitchinterval(case["switch"])
    transport = CountingTransport()
    stop = threading.Event()
    master = QueueSemantivaOrchestrator(transport, stop_event=stop, logger=master_logger)
    executor = RecordingExecutor()
    expected: List[Dict[str, Any]] = []
    futures = []
    job_ids: List[Optional[str]] = []
    threads: List[threading.Thread] = []
    out: Dict[str, Any] = {}
    jobdir = tempfile.mkdtemp(prefix="c15-jobs-", dir=".")
    started_flag, shared_yaml, reused = [False], [None], [0]
    shared_pipes: Dict[str, Any] = {}
    shared_used = [0]

    def _wait(f, seconds: float) -> bool:
        t_end = time.time() + seconds
        while time.time() < t_end:
            if f.done():
                return True
            time.sleep(0.01)
        return f.done()

    try:
        def enqueue(k: int) -> None:
            job = case["jobs"][k]
            failing = k in (case["fail_at"], case.get("fail_also"))
            fk = case.get("fail_kind", "divide")
            cfg = job_config(k, job, failing, fk)
            share = case.get("shared_pipeline") and job.get("form") == "pipeline" and not failing
            if share:
                # every such job of this payload kind is handed the SAME Pipeline object (same configuration, own payload and tag)
                k0 = next(j for j, o in enumerate(case["jobs"]) if o["kind"] == job["kind"] and o.get("form") == "pipeline" and case["fail_at"] != j)
                cfg = job_config(k0, case["jobs"][k0], False, fk)
            data = observe.build_data(job["payload"])
            ctx = {"tag": k}
            if case.get("odd_ctx") and k % 2 == 0:
                # a legal but unusual value travels in the job's context (never consumed by a node)
                ctx["extra"] = observe.materialise_odd({"$odd": case["odd_ctx"]})
            unloadable = failing and fk in ("yaml_missing", "yaml_invalid", "cfg_not_nodes")
            handed: Any = cfg
            form = job.get("form", "list")
            if unloadable:
                # a job the worker cannot turn into a pipeline: its future must still complete (exceptionally)
                if fk == "cfg_not_nodes":
                    handed = ["not-a-node-mapping"]
                else:
                    handed = os.path.join(jobdir, f"job{k}_{fk}.yaml")
                    if fk == "yaml_invalid":
                        with open(handed, "w") as fh:
                            fh.write("pipeline:\n  nodes: [unclosed\n")
                expected.append({"ok": False, "exc": "unloadable"})
                fut = master.enqueue(handed, data=data, context=ContextType(dict(ctx)), return_future=True)
                job_ids.append(k)
                futures.append(fut)
                return
            if form == "yaml":
                handed = os.path.join(jobdir, f"job{k}.yaml")
                if case.get("yaml_reuse") and started_flag[0]:
                    # the same file name is reused for another pipeline once the earlier job that used it is done
                    prev = shared_yaml[0]
                    if prev is None or prev.done() or _wait(prev, 20.0):
                        handed = os.path.join(jobdir, "shared.yaml")
                        reused[0] += 1
                with open(handed, "w") as fh:
                    yaml.safe_dump({"pipeline": {"nodes": copy.deepcopy(cfg)}}, fh)
            elif form == "pipeline" and share:
                if job["kind"] not in shared_pipes:
                    shared_pipes[job["kind"]] = Pipeline(copy.deepcopy(cfg))
                handed = shared_pipes[job["kind"]]
                shared_used[0] += 1
            elif form == "pipeline":
                handed = Pipeline(copy.deepcopy(cfg))
            # the direct run (same configuration, same payload) is the reference
            try:
                ref = Pipeline(copy.deepcopy(cfg)).process(Payload(observe.build_data(job["payload"]), ContextType(dict(ctx))))
                expected.append({"ok": True, "data": observe.norm_data(ref.data), "ctx": observe.norm_ctx(ref.context)})
            except Exception as exc:  # noqa: BLE001
                expected.append({"ok": False, "exc": type(exc).__name__})
            fut = master.enqueue(handed, data=data, context=ContextType(dict(ctx)), return_future=True)
            if isinstance(handed, str) and handed.endswith("shared.yaml"):
                shared_yaml[0] = fut
            job_ids.append(k)  # resolved to the job id after the batch (the cfg publication carries tag -> id)
            futures.append(fut)

        order = list(range(len(case["jobs"])))
        early = [k for k in order if case["jobs"][k]["before_start"]]
        late = [k for k in order if not case["jobs"][k]["before_start"]]
        for k in early:
            enqueue(k)
        mt = threading.Thread(target=master.run_forever, daemon=True)
        threads.append(mt)
        mt.start()
        started_flag[0] = True
        for w in range(case["workers"]):
            t = threading.Thread(target=worker_loop, args=(w, transport, executor, stop, logger, 0.01), daemon=True)
            threads.append(t)
            t.start()
        noise_stop = threading.Event()
        if case.get("noise"):
            # fire-and-forget jobs keep arriving while the batch is worked on (the master never idles in its 0.2 s poll)
            def noise():
                filler = [{"processor": "FloatSquareOperation"}]
                while not noise_stop.is_set() and not stop.is_set():
                    master.enqueue(filler, data=observe.build_data(M.F(0.0)))
                    time.sleep(0.002)

            nt = threading.Thread(target=noise, daemon=True)
            threads.append(nt)
            nt.start()
        for k in late:
            if case["jobs"][k]["pause_ms"]:
                time.sleep(case["jobs"][k]["pause_ms"] / 1000.0)
            enqueue(k)
        # ---- wait: all futures done, or quiescent ------------------------------------------------
        t0 = time.time()
        last_state, last_change = None, time.time()
        quiescent = False
        while time.time() - t0 < 60:
            if all(f.done() for f in futures):
                break
            queues = getattr(transport, "_queues", {})
            pending_msgs = sum(len(q) for q, _l in list(queues.values()))
            state = (sum(f.done() for f in futures), len(status_pubs), started[0], active[0], master.job_queue.qsize(), pending_msgs)
            if state != last_state:
                last_state, last_change = state, time.time()
            if time.time() - t0 > 25:
                noise_stop.set()  # let the system drain so that quiescence can be decided
            workers_alive = [t for t in threads[1:1 + case["workers"]] if t.is_alive()]
            if not mt.is_alive() or not workers_alive:
                quiescent = True  # nobody is left who could complete a pending future
                break
            idle = active[0] == 0 and master.job_queue.qsize() == 0 and pending_msgs == 0
            if idle and time.time() - last_change > 3.0:
                quiescent = True
                break
            time.sleep(0.02)
        out.update(shared_pipeline_jobs=shared_used[0], yaml_paths_reused=reused[0], order=early + late, done=[f.done() for f in futures], quiescent=quiescent, waited=time.time() - t0, master_alive=mt.is_alive(),
                   status_pubs=list(status_pubs), job_ids=[cfg_ids.get(k) for k in job_ids], expected=expected)
        results = []
        for f in futures:
            if not f.done():
                results.append({"state": "pending"})
            elif f.exception() is not None:
                results.append({"state": "exception", "exc": type(f.exception()).__name__})
            else:
                d, c = f.result()
                results.append({"state": "result", "data": observe.norm_data(d), "ctx": observe.norm_ctx(c)})
        out["results"] = results
    finally:
        noise_stop.set()
        stop.set()
        master.running = False
        for t in threads:
            t.join(timeout=3)
        sys.setswitchinterval(old_switch)
        shutil.rmtree(jobdir, ignore_errors=True)
    return out


def check_case(case: Dict[str, Any], col: Collector) -> None:
    r = run_batch(case)
    n = len(case["jobs"])
    labs = ["jobs:%d" % min(n, 9), "workers:%d" % case["workers"], "switch:%g" % case["switch"]] + (["burst_with_background_traffic"] if case.get("noise") else [])
    if case.get("enqueue_stall_ms"):
        labs.append("enqueue_stalled")
    if r.get("shared_pipeline_jobs", 0) >= 2:
        labs.append("one_pipeline_object_shared_by_jobs")
    if r.get("yaml_paths_reused", 0) >= 2:
        labs.append("yaml_path_reused_for_another_pipeline")
    if case["fail_at"] is not None:
        labs.append("failing_job")
        labs.append("fail_kind:" + case.get("fail_kind", "divide"))
        labs.append("fail_at:%s" % ("first" if case["fail_at"] == 0 else "last" if case["fail_at"] == n - 1 else "middle"))
    for j in case["jobs"]:
        labs.append("form:" + j.get("form", "list"))
        labs.append("payload:" + j["kind"] + (":empty" if j["kind"] == "collection" and not j["payload"]["v"] else ""))
    labs = sorted(set(labs))
    if not all(r["done"]) and not r["quiescent"]:
        col.inconclusive += 1
        col.count(case, labs + ["inconclusive"], False)
        return
    col.count(case, labs, (n >= 2 and case["workers"] >= 2) or case["fail_at"] is not None)
    if not r["master_alive"]:
        col.add("master_thread_died", {}, case, "master thread not alive at the end of the batch")
    for pos, k in enumerate(r["order"]):
        exp, res = r["expected"][pos], r["results"][pos]
        job = case["jobs"][k]
        feats = {"payload": job["kind"] + (":empty" if job["kind"] == "collection" and not job["payload"]["v"] else ""),
                 "job_fails": not exp["ok"]}
        if job.get("form", "list") != "list":
            feats["form"] = job["form"]
        if exp.get("exc") == "unloadable":
            feats["unloadable"] = case.get("fail_kind")
        jid = r["job_ids"][pos]
        if res["state"] == "pending":
            col.add("future_never_completes", feats, case, {"job": k, "quiescent_after_s": round(r["waited"], 1)},
                    "result" if exp["ok"] else "exceptional completion")
            continue
        if exp["ok"]:
            if res["state"] != "result":
                col.add("future_failed_but_direct_run_succeeds", feats, case, res, exp)
                continue
            want_ctx = dict(exp["ctx"], job_id=jid)
            if not observe.equal(res["data"], exp["data"]):
                col.add("future_data_not_own_result", feats, case, {"job": k, "data": res["data"]}, exp["data"])
            if not observe.equal(res["ctx"], want_ctx):
                col.add("future_context_not_own_result", feats, case, {"job": k, "ctx": res["ctx"]}, want_ctx)
        else:
            if res["state"] != "exception":
                col.add("failing_job_future_completed_normally", feats, case, res, exp)
        if jid is not None and r["status_pubs"].count(jid) != 1:
            col.add("status_publications_per_job", dict(feats, count=min(r["status_pubs"].count(jid), 3)), case, r["status_pubs"].count(jid), 1)


def plan(tier: str, seed: int, scale: float = 1.0) -> List[Dict[str, Any]]:
    nshards, n, mj = (12, 14, 8) if tier == "quick" else (16, 70, 40)
    specs = [{"seed": seed * 3571 + i, "n": max(2, int(n * scale)), "max_jobs": mj, "timeout": 1500, "timeout_ok": True} for i in range(nshards)]
    # bursts: 40 jobs on 4 workers at the shortest switch interval, all published before the workers drain them
    nb, rounds = (4, 3) if tier == "quick" else (8, 12)
    specs += [{"kind": "burst", "seed": seed * 97 + i, "rounds": rounds, "timeout": 1500, "timeout_ok": True} for i in range(nb)]
    return specs


def burst_case(seed: int, r: int) -> Dict[str, Any]:
    kinds = ["float", "collection", "none", "float"]
    jobs = []
    for k in range(40):
        kind = kinds[(seed + r + k) % 4]
        payload = M.F(float(k + 1)) if kind == "float" else M.NONE if kind == "none" else M.C([float(k + 1 + j) for j in range((seed + k) % 4)])
        jobs.append({"kind": kind, "payload": payload, "pause_ms": 0, "before_start": (k % 5) != 4,
                     "form": "pipeline" if (seed + r) % 2 else ["list", "list", "pipeline", "yaml"][k % 4]})
    # in every other burst all jobs of one payload kind are handed one and the same Pipeline object
    return {"jobs": jobs, "fail_at": (seed * 7 + r * 13) % 40, "workers": 4, "switch": 1e-6, "noise": True, "shared_pipeline": bool((seed + r) % 2)}


def run_shard(spec: Dict[str, Any]) -> Dict[str, Any]:
    col = Collector()
    if spec.get("kind") == "burst":
        for r in range(spec["rounds"]):
            check_case(burst_case(spec["seed"], r), col)
        return col.result()
    run_campaign(c15_case(spec.get("max_jobs", 8)), lambda c: check_case(c, col), spec["n"], spec["seed"])
    return col.result()


def replay(case: Dict[str, Any]) -> List[Dict[str, Any]]:
    col = Collector()
    check_case(case, col)
    return [{"check": b["check"], "features": b["features"], "observed": b["observed"], "expected": b["expected"],
             "case": b["case"]} for b in col.buckets.values()]


def valid(case: Any) -> bool:
    try:
        n = len(case["jobs"])
        return n >= 1 and (case["fail_at"] is None or 0 <= case["fail_at"] < n) and 1 <= case["workers"] <= 4 and \
            all(j["kind"] in ("float", "collection", "none") and j.get("form", "list") in ("list", "yaml", "pipeline") and j["payload"]["t"] in ("None", "FloatDataType", "FloatDataCollection") and
                (j["kind"] == "float") == (j["payload"]["t"] == "FloatDataType") and (j["kind"] == "none") == (j["payload"]["t"] == "None")
                for j in case["jobs"]) and case["switch"] in (1e-6, 1e-5, 1e-4, 5e-3)
    except Exception:
        return False


def shrink_candidates(case):
    for i in range(len(case["jobs"])):
        if len(case["jobs"]) <= 1:
            break
        c = copy.deepcopy(case)
        del c["jobs"][i]
        if c["fail_at"] is not None:
            if c["fail_at"] == i:
                c["fail_at"] = None
            elif c["fail_at"] > i:
                c["fail_at"] -= 1
        yield c
    if case["workers"] > 1:
        yield dict(copy.deepcopy(case), workers=1)
    for i, j in enumerate(case["jobs"]):
        if j["pause_ms"] or not j["before_start"]:
            c = copy.deepcopy(case)
            c["jobs"][i]["pause_ms"] = 0
            c["jobs"][i]["before_start"] = True
            yield c


def label_requirements(tier: str) -> Dict[str, Any]:
    return {"failing_job": 0.2, "enqueue_stalled": 3, "fail_kind:value_empty": 1, "fail_kind:yaml_missing": 1, "fail_kind:cfg_not_nodes": 1, "form:yaml": 5, "form:pipeline": 5, "yaml_path_reused_for_another_pipeline": 2, "workers:1": 1, "workers:4": 1, "payload:collection:empty": 2, "payload:none": 3}
