"""C10 — tracing is purely observational and traces are reproducible."""
from __future__ import annotations

import copy
import json
import os
import shutil
import tempfile
from typing import Any, Dict, List

from hypothesis import strategies as st

from ..core.campaign import run_campaign
from ..core.collect import Collector
from ..lib import gen, model as M, observe, tracelib
from .c01 import labels_of, nodekind

ID = "C10"
LEVEL = "exploration"
RULE = ("Hypothesis-generated histories: a generated pipeline/context/payload A (succeeding or failing) is executed untraced, "
        "then traced at a generated detail level, then 0..3 other generated pipelines are executed (traced or not), then A is "
        "executed traced again through a fresh Pipeline object or through the same reused object. Oracle (a): traced and "
        "untraced runs return / raise the same thing (data, context, exception type and text, failing node index, sink files). "
        "Oracle (b): the two traces of A are identical after deleting run id, timestamps, durations and sequence numbers. "
        "non-trivial = A has >=2 nodes and >=1 context write, and for (b) the history is non-empty or the object is reused; "
        "distinct = canonical JSON of the history")
ASSUMPTIONS = [
    "volatile fields = run_id (top level and identity.run_id), timestamp, seq, timing (all four members); nothing else is removed",
    "the initial context dict is deep-copied per run (the framework mutates the dict it is given)",
]


@st.composite
def c10_case(draw):
    a = draw(gen.case(max_nodes=6, rare=True, rich_sweeps="numpy"))
    others = draw(st.lists(gen.case(max_nodes=3, sweeps=True, rare=False), max_size=3))
    others_l = [{"case": o, "traced": draw(st.booleans())} for o in others]
    # a twin of A whose sweep expressions differ (same generated class names, different meaning)
    if any(n.get("sweep") and n["sweep"].get("params") for n in a["nodes"]) and draw(st.booleans()):
        twin = copy.deepcopy(a)
        for n in twin["nodes"]:
            if n.get("sweep"):
                n["sweep"]["params"] = {k: f"({e}) + 10.0" for k, e in n["sweep"]["params"].items()}
        # ... and a twin that only SPELLS the expressions differently (operands of + / * exchanged): same meaning and
        # same semantic id, other text; run after the first twin so that whatever is memoised per node changes hands twice
        import random as _random

        from ..lib import yamlrw

        spelled = copy.deepcopy(a)
        changed = False
        for n in spelled["nodes"]:
            if n.get("sweep"):
                for k, e in list(n["sweep"]["params"].items()):
                    for sd in range(6):
                        e2 = yamlrw.commute_expr(e, _random.Random(sd))
                        if e2 != e:
                            n["sweep"]["params"][k] = e2
                            changed = True
                            break
        others_l.insert(0, {"case": twin, "traced": True})
        if changed:
            others_l.insert(1, {"case": spelled, "traced": True})
    return {"a": a, "detail": draw(st.sampled_from(["hash", "repr", "context", "all", "hash,repr,context"])),
            "others": others_l, "reuse": draw(st.booleans()), "mode": draw(st.sampled_from(["file", "dir", "file", "dir_dotted"])),
            "shared_orchestrator": draw(st.booleans()), "iterator": draw(st.integers(0, 5)) == 0,
            "nonfinite": draw(st.sampled_from([None] * 7 + ["inf", "nan", "-inf"])),
            "odd": draw(st.sampled_from([None] * 8 + observe.ODD_NAMES)),
            "odd_config": draw(st.sampled_from([None] * 12 + observe.ODD_NAMES)),
            "raise_kind": draw(st.sampled_from([None] * 9 + sorted(M.EXC_NAMES))),
            "double_fault": draw(st.sampled_from([False] * 9 + [True])),
            "module_ref": draw(st.sampled_from([False] * 5 + [True])),
            "late_ref": draw(st.sampled_from([False] * 7 + [True])), "fresh_process": draw(st.sampled_from([False] * 11 + [True]))}


def _files() -> Dict[str, str]:
    out = {}
    for p in gen.PATHS:
        if os.path.exists(p):
            out[p] = open(p).read()
            os.remove(p)
    return out


def _with_nonfinite(a: Dict[str, Any], which: str) -> Dict[str, Any]:
    """Plant a non-finite float among the parameters of the first multiply / add / echo node (config or context)."""
    a = copy.deepcopy(a)
    val = float(which)
    for i, n in enumerate(a["nodes"]):
        if n["p"] in ("FloatMultiplyOperation", "FloatAddOperation", "FloatMultiplyOperationWithDefault", "VEchoProbe", "VInPlaceScaleOp") and not n.get("sweep"):
            pname = M.LIB[n["p"]]["params"][0][0]
            if i % 2 == 0:
                n.setdefault("params", {})[pname] = val
            else:
                (n.get("params") or {}).pop(pname, None)
                a["ctx"][pname] = val
            break
    return a


def _with_odd(a: Dict[str, Any], name: str) -> Dict[str, Any]:
    """A legal but unusual Python value (not JSON-representable as such) reaches a node as a context-resolved parameter."""
    a = copy.deepcopy(a)
    marker = {"$odd": name}
    for n in a["nodes"]:
        if n["p"] in ("VEchoProbe", "FloatMultiplyOperation", "FloatAddOperation", "FloatMultiplyOperationWithDefault", "VInPlaceScaleOp") and not n.get("sweep"):
            pname = M.LIB[n["p"]]["params"][0][0]
            (n.get("params") or {}).pop(pname, None)
            a["ctx"][pname] = marker
            return a
    # no consumer: an echo probe is put in front of the first node that sees a float (or the value just sits in the context)
    a["ctx"]["p"] = marker
    if a["data"].get("t") == "FloatDataType":
        a["nodes"].insert(0, {"p": "VEchoProbe", "context_key": "odd_echo", "params": {"q": 1.0}})
    return a


def _fresh_process_trace(a: Dict[str, Any], detail: str, workroot: str):
    import subprocess
    import sys

    p = subprocess.run([sys.executable, "-m", "verif.props.c10_child"], input=json.dumps({"a": a, "detail": detail, "workdir": os.path.abspath(workroot)}),
                       capture_output=True, text=True, timeout=120, cwd=os.path.abspath(workroot))
    if "@@RESULT@@" not in p.stdout:
        return None
    return json.loads(p.stdout.split("@@RESULT@@", 1)[1])


def check_case(case: Dict[str, Any], col: Collector, workroot: str = ".") -> None:
    a = {k: case["a"][k] for k in ("nodes", "ctx", "data")}
    if case.get("nonfinite"):
        a = _with_nonfinite(a, case["nonfinite"])
    elif case.get("odd"):
        a = _with_odd(a, case["odd"])
    elif case.get("odd_config"):
        # the unusual value sits in the node configuration itself (Python API; YAML could not carry most of them)
        a = copy.deepcopy(a)
        for n in a["nodes"]:
            if n["p"] in ("VEchoProbe", "FloatMultiplyOperation", "FloatAddOperation", "FloatMultiplyOperationWithDefault", "VInPlaceScaleOp") and not n.get("sweep"):
                n.setdefault("params", {})[M.LIB[n["p"]]["params"][0][0]] = {"$odd": case["odd_config"]}
                break
    elif case.get("late_ref"):
        # a short name that nothing has registered yet, followed by the `module:Class` reference that would register it:
        # traced or not, the run must fail at the first of the two nodes (until some run has resolved the reference)
        m0 = M.run(a)
        if m0["ok"] and M.kind_of(m0["data"]) == "Float":
            a = copy.deepcopy(a)
            a["nodes"] += [{"p": "VShadowLate"}, {"p": "verif.lib.shadow:VShadowLate"}]
    elif case.get("module_ref"):
        # a short-name node followed by a `module:Class` reference into a module that also defines that short name
        m0 = M.run(a)
        if m0["ok"] and M.kind_of(m0["data"]) == "Float":
            a = copy.deepcopy(a)
            a["nodes"] += [{"p": "FloatSquareOperation"}, {"p": "verif.lib.shadow:VShadowOnly"}]
    elif case.get("double_fault"):
        # two configuration errors: an unknown parameter on the first data node, an unresolvable processor at the end
        a = copy.deepcopy(a)
        for n in a["nodes"]:
            if M.describe(n)["kind"] != "ctx" and not n.get("sweep"):
                n.setdefault("params", {})["zz"] = 1.0
                break
        a["nodes"].append({"p": "NoSuchProcessorXYZ"})
    elif case.get("raise_kind"):
        # a node raises a pre-built exception object (empty args, tuple args, BaseException subclasses ...)
        m0 = M.run(a)
        spots = [e["index"] for e in m0["log"] if M.kind_of(e["in"]) == "Float"] + ([len(a["nodes"])] if m0["ok"] and M.kind_of(m0["data"]) == "Float" else [])
        if spots:
            a = copy.deepcopy(a)
            a["nodes"].insert(spots[len(spots) // 2], {"p": "VRaiseOp", "params": {"kind": case["raise_kind"]}})
    detail = case.get("detail", "hash")
    _files()
    ref = observe.run_real(copy.deepcopy(a))
    files_ref = _files()
    if not ref["constructed"]:
        col.exclude(1, "not_constructible")
        return
    m = M.run(a)
    tdir = tempfile.mkdtemp(prefix="c10-", dir=workroot)
    try:
        shared = None
        if case.get("shared_orchestrator"):
            from semantiva.execution.orchestrator.orchestrator import LocalSemantivaOrchestrator

            shared = LocalSemantivaOrchestrator()

        def fresh(c):
            """A new Pipeline object, on the shared orchestrator when the history uses one."""
            if shared is None:
                return None
            from semantiva.pipeline import Pipeline

            try:
                return Pipeline(observe.materialise_odd(M.to_config(c)), orchestrator=shared)
            except Exception:  # noqa: BLE001
                return None

        # run 1 has no history at all (its own orchestrator); with a shared orchestrator run 2 comes after the others on it
        r1 = tracelib.run_traced(copy.deepcopy(a), detail, case.get("mode", "file"), os.path.join(tdir, "r1"))
        files_1 = _files()
        for j, o in enumerate(case.get("others", [])):
            oc = {k: o["case"][k] for k in ("nodes", "ctx", "data")}
            if o.get("traced"):
                tracelib.run_traced(copy.deepcopy(oc), detail, "file", os.path.join(tdir, f"o{j}"), pipeline=fresh(oc))
            else:
                observe.run_real(copy.deepcopy(oc), pipeline=fresh(oc))
            _files()
        pipe = r1["pipeline"] if (case.get("reuse") and shared is None) else fresh(a)
        r2 = tracelib.run_traced(copy.deepcopy(a), detail, case.get("mode", "file"), os.path.join(tdir, "r2"), pipeline=pipe)
        if case.get("iterator"):
            _iterator_clause(case, detail, tdir, col)
        if case.get("fresh_process") and r2["traces"] and not case.get("nonfinite"):
            # the same configuration traced in a brand-new interpreter (no history at all) must give the same trace
            base = _fresh_process_trace(a, detail, tdir)
            col.labels["fresh_process_baseline"] += 1
            if base is not None:
                mine = json.loads(json.dumps([tracelib.normalise_record(x) for x in r2["traces"][0]["records"]], default=repr))
                for rec in mine + base["records"]:
                    # the registry fingerprint pins which modules the process has registered: process state by design
                    env = (rec.get("assertions") or {}).get("environment") if isinstance(rec.get("assertions"), dict) else None
                    if isinstance(env, dict):
                        env.pop("registry.fingerprint", None)
                if base["records"] != mine:
                    fields = "record_count"
                    for x, y in zip(mine, base["records"]):
                        if x != y:
                            fs = sorted(k for k in set(x) | set(y) if x.get(k) != y.get(k))
                            sub = []
                            for f in fs:
                                if isinstance(x.get(f), dict) and isinstance(y.get(f), dict):
                                    sub += [f + "." + k for k in sorted(set(x[f]) | set(y[f])) if x[f].get(k) != y[f].get(k)]
                                else:
                                    sub.append(f)
                            fields = ",".join(sub[:3]) + "@" + str(x.get("record_type"))
                            break
                    col.add("trace_differs_from_fresh_process", {"fields": fields}, case, None, None)
        files_2 = _files()
        _judge(case, a, m, ref, r1, r2, files_ref, files_1, files_2, col)
    finally:
        shutil.rmtree(tdir, ignore_errors=True)


def _iterator_clause(case, detail, tdir, col) -> None:
    """One-shot iterators (in the context, consumed by the first node; and as a lazy data payload): tracing must not
    drain them before the node sees them."""
    observe.ensure_registered()
    from semantiva.pipeline import Payload, Pipeline
    from semantiva.trace.drivers.jsonl import JsonlTraceDriver

    from ..lib.components import VLazyFloatStream

    items = [1.0, 2.0, 3.5]
    scenarios = {
        "context_iterator": ([{"processor": "VIterSumOp"}, {"processor": "FloatCollectValueProbe", "context_key": "c"}],
                             lambda: Payload(observe.build_data(M.F(1.0)), {"items": iter(list(items)), "tag": "x"})),
        "context_iterator_later_node": ([{"processor": "FloatSquareOperation"}, {"processor": "VIterSumOp"}],
                                        lambda: Payload(observe.build_data(M.F(2.0)), {"items": iter(list(items))})),
        "lazy_data": ([{"processor": "VStreamSumOp"}, {"processor": "FloatSquareOperation"}],
                      lambda: Payload(VLazyFloatStream(iter(list(items))), {"tag": "x"})),
    }
    for name, (cfg, make) in scenarios.items():
        col.labels["iterator_in_context"] += 1

        def run(trace):
            p = Pipeline(cfg, trace=trace)
            try:
                out = p.process(make())
                return ["ok", observe.norm_data(out.data)]
            except Exception as exc:  # noqa: BLE001
                return ["exc", type(exc).__name__]

        plain = run(None)
        traced = run(JsonlTraceDriver(os.path.join(tdir, f"iter_{name}.ser.jsonl"), detail=detail))
        if plain != traced:
            col.add("tracing_consumes_one_shot_iterator", {"scenario": name, "detail": detail.split(",")[0]}, case, traced, plain)


def _judge(case, a, m, ref, r1, r2, files_ref, files_1, files_2, col) -> None:
    labs = labels_of(a, m) + ["detail:" + case.get("detail", "hash"), "history:%d" % len(case.get("others", [])),
                              "reuse" if case.get("reuse") else "fresh", "mode:" + case.get("mode", "file"),
                              "shared_orchestrator" if case.get("shared_orchestrator") else "own_orchestrator"] + \
        (["module_class_reference"] if case.get("module_ref") else ["nonfinite_parameter"] if case.get("nonfinite") else ["odd_value", "odd:" + case["odd"]] if case.get("odd") else [])
    ctx_write = any(e.get("post") is not None and not observe.equal(e["pre"], e["post"]) for e in m["log"])
    nontriv = len(a["nodes"]) >= 2 and ctx_write and (bool(case.get("others")) or bool(case.get("reuse")))
    col.count(case, labs, nontriv)
    sweep = any(n.get("sweep") for n in a["nodes"])
    feats0 = {"reuse": bool(case.get("reuse")), "has_sweep": sweep, "shared_orchestrator": bool(case.get("shared_orchestrator"))}

    def bad(check, feats=None, observed=None, expected=None):
        col.add(check, dict(feats or {}), case, observed, expected)

    # (a) observational
    for tag, r, files in (("first", r1, files_1), ("second", r2, files_2)):
        if r["ok"] != ref["ok"]:
            bad("tracing_changes_outcome", {"run": tag}, r.get("exc_type"), ref.get("exc_type"))
            continue
        if ref["ok"]:
            if not observe.equal(r["data"], ref["data"]):
                bad("tracing_changes_data", {"run": tag}, r["data"], ref["data"])
            if not observe.equal(r["ctx"], ref["ctx"]):
                bad("tracing_changes_context", {"run": tag}, r["ctx"], ref["ctx"])
        else:
            if type(r["exc"]) is not type(ref["exc"]) or str(r["exc"]) != str(ref["exc"]):
                bad("tracing_changes_exception", {"run": tag}, repr(r["exc"])[:160], repr(ref["exc"])[:160])
            if len(r["published"]) != len(ref["published"]):
                bad("tracing_changes_failing_index", {"run": tag}, len(r["published"]), len(ref["published"]))
        if files != files_ref:
            bad("tracing_changes_sink_files", {"run": tag}, files, files_ref)
        for x, y in zip(r["published"], ref["published"]):
            if not (observe.equal(x["data"], y["data"]) and observe.equal(x["ctx"], y["ctx"])):
                bad("tracing_changes_intermediate_state", {"run": tag})
                break
    # (b) reproducible
    if len(r1["traces"]) != 1 or len(r2["traces"]) != 1:
        bad("trace_file_count", feats0, [len(r1["traces"]), len(r2["traces"])], [1, 1])
        return
    n1 = [tracelib.normalise_record(x) for x in r1["traces"][0]["records"]]
    n2 = [tracelib.normalise_record(x) for x in r2["traces"][0]["records"]]
    if len(n1) != len(n2):
        bad("traces_differ_record_count", feats0, len(n2), len(n1))
        return
    for i, (x, y) in enumerate(zip(n1, n2)):
        if x != y:
            fields = sorted(k for k in set(x) | set(y) if x.get(k) != y.get(k))
            sub = []
            for f in fields:
                if isinstance(x.get(f), dict) and isinstance(y.get(f), dict):
                    sub += [f + "." + k for k in sorted(set(x[f]) | set(y[f])) if x[f].get(k) != y[f].get(k)]
                else:
                    sub.append(f)
            bad("traces_differ_after_normalisation", dict(feats0, record_type=str(x.get("record_type")), fields=sub[:4]),
                {f: _clip(y.get(f.split(".")[0])) for f in fields[:2]}, {f: _clip(x.get(f.split(".")[0])) for f in fields[:2]})
            break


def _clip(v: Any) -> str:
    return json.dumps(v, sort_keys=True, default=repr)[:300]


def plan(tier: str, seed: int, scale: float = 1.0) -> List[Dict[str, Any]]:
    nshards, n = (32, 140) if tier == "quick" else (256, 130)
    return [{"seed": seed * 2741 + i, "n": max(10, int(n * scale)), "timeout": 900} for i in range(nshards)]


def run_shard(spec: Dict[str, Any]) -> Dict[str, Any]:
    col = Collector()
    run_campaign(c10_case(), lambda c: check_case(c, col, spec.get("workdir", ".")), spec["n"], spec["seed"])
    return col.result()


def replay(case: Dict[str, Any]) -> List[Dict[str, Any]]:
    col = Collector()
    check_case(case, col)
    return [{"check": b["check"], "features": b["features"], "observed": b["observed"], "expected": b["expected"],
             "case": b["case"]} for b in col.buckets.values()]


def valid(case: Any) -> bool:
    from .c01 import valid as v1

    try:
        return v1(case["a"]) and all(v1(o["case"]) for o in case.get("others", [])) and case.get("mode", "file") in ("file", "dir", "dir_dotted")
    except Exception:
        return False


def label_requirements(tier: str) -> Dict[str, Any]:
    return {"odd_value": 0.1, "fresh_process_baseline": 30, "nonfinite_parameter": 0.05, "shared_orchestrator": 0.2, "iterator_in_context": 20, "reuse": 0.2, "fresh": 0.3, "succeeds": 0.2, "fails": 0.2, "sweep": 0.05, "history:0": 0.04, "history:2": 0.06}
