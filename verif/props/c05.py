"""C05 — identities discriminate: a change of meaning changes semantic ID and config ID."""
from __future__ import annotations

import copy
import json
import re
from typing import Any, Dict, Iterator, List, Tuple

from ..core.campaign import run_campaign
from ..core.collect import Collector
from ..lib import gen, model as M, observe, yamlrw
from . import c04

ID = "C05"
LEVEL = "exploration"
RULE = ("Hypothesis-generated configurations x every applicable single-point semantic mutation, one operator per "
        "identity-bearing field, applied at every position: processor of node i; a parameter value at any depth (nested dict / "
        "list leaves); insert / delete a node; swap two different adjacent nodes; sweep: wrapped processor, expression "
        "(constant + 1, variable renamed to another declared variable, + -> -), variable domain (lo, hi, steps, scale, "
        "endpoint, one sequence element, from_context key), mode, broadcast, collection. Oracle: semantic ID differs and config "
        "ID differs and (UUID or node semantic ID of the affected node differs); all UUIDs of one pipeline distinct. Every "
        "(configuration, mutation) pair is non-trivial; distinct = (configuration hash, operator, position)")
ASSUMPTIONS = [
    "each mutation changes the type-strict deep value of the configuration and is not a documented equivalence (+/* commutation); value re-typings such as 1.0 -> 1 are not generated",
    "a probe's context_key and run_space blocks are not among the identity-bearing respects the property lists and are not mutated",
]

ALT = {
    "FloatValueDataSource": "FloatValueDataSourceWithDefault", "FloatValueDataSourceWithDefault": "FloatValueDataSource",
    "FloatDataSource": "FloatPayloadSource", "FloatPayloadSource": "FloatDataSource", "VPayloadSourceWithKeys": "FloatPayloadSource",
    "FloatMultiplyOperation": "FloatMultiplyOperationWithDefault", "FloatMultiplyOperationWithDefault": "FloatMultiplyOperation",
    "FloatAddOperation": "FloatSquareOperation", "FloatSquareOperation": "FloatSqrtOperation", "FloatSqrtOperation": "FloatSquareOperation",
    "FloatDivideOperation": "FloatSqrtOperation", "VCtxWriteOp": "FloatSquareOperation", "VNestedParamOp": "FloatSquareOperation",
    "FloatBasicProbe": "FloatCollectValueProbe", "FloatCollectValueProbe": "FloatBasicProbe", "VEchoProbe": "FloatBasicProbe",
    "FloatDataSink": "FloatPayloadSink", "FloatPayloadSink": "FloatDataSink", "FloatMockDataSink": "FloatTxtFileSaver",
    "FloatTxtFileSaver": "FloatMockDataSink", "FloatCollectionSumOperation": "FloatDataSink",
}
SWEEP_ALT = {"FloatMultiplyOperation": "FloatMultiplyOperationWithDefault", "FloatMultiplyOperationWithDefault": "FloatMultiplyOperation",
             "FloatValueDataSource": "FloatValueDataSourceWithDefault", "FloatValueDataSourceWithDefault": "FloatValueDataSource"}


def _leaves(obj: Any, path=()) -> Iterator[Tuple[tuple, Any]]:
    if isinstance(obj, dict):
        for k, v in obj.items():
            yield from _leaves(v, path + (k,))
    elif isinstance(obj, list):
        for i, v in enumerate(obj):
            yield from _leaves(v, path + (i,))
    else:
        yield path, obj


def _set(obj: Any, path: tuple, value: Any) -> None:
    for p in path[:-1]:
        obj = obj[p]
    obj[path[-1]] = value


def _other(v: Any) -> Any:
    if isinstance(v, bool):
        return not v
    if isinstance(v, float):
        return v + 1.0
    if isinstance(v, int):
        return v + 1
    if isinstance(v, str):
        return v + "x"
    return None


def _fine_others(v: Any) -> Iterator[Tuple[str, Any]]:
    """Smallest visible changes of one leaf value: each is a different value, so a different configuration meaning."""
    import math

    if isinstance(v, bool):
        return
    if isinstance(v, str):
        yield "str_trailing_space", v + " "
        yield "str_leading_space", " " + v
        yield "str_trailing_newline", v + "\n"
        if v.swapcase() != v:
            yield "str_case", v.swapcase()
    elif isinstance(v, float) and math.isfinite(v):
        yield "float_ulp", math.nextafter(v, math.inf)
        if v != 0.0:
            yield "float_sign", -v
    elif isinstance(v, int):
        yield "int_sign", -v if v else 1


def _containers(obj: Any, path=()) -> Iterator[Tuple[tuple, Any]]:
    if isinstance(obj, dict):
        yield path, obj
        for k, v in obj.items():
            yield from _containers(v, path + (k,))
    elif isinstance(obj, list):
        yield path, obj
        for i, v in enumerate(obj):
            yield from _containers(v, path + (i,))


def mutate_expr(expr: str, names: List[str]) -> Iterator[Tuple[str, str]]:
    m = re.search(r"\d+(\.\d+)?", expr)
    if m:
        val = float(m.group(0)) + 1.0
        yield "expr_constant", expr[:m.start()] + repr(val) + expr[m.end():]
    for v in names:
        if re.search(rf"\b{v}\b", expr):
            others = [u for u in names if u != v]
            if others:
                yield "expr_variable", re.sub(rf"\b{v}\b", others[0], expr, count=1)
            break
    if " * " in expr and " + " in expr:
        # swap an inner operator between + and * (same leaves, same outer shape, different meaning)
        yield "expr_plus_times", expr.replace(" * ", " + ", 1)
        yield "expr_plus_times", expr.replace(" + ", " * ", 1)
    if " + " in expr:
        yield "expr_operator", expr.replace(" + ", " - ", 1)
    elif " * " in expr:
        yield "expr_operator", expr.replace(" * ", " - ", 1)
    else:
        yield "expr_wrap", f"({expr}) + 1.0"


def ast_mutations(expr: str) -> Iterator[Tuple[str, str]]:
    """Single-point changes of the expression tree that change its meaning: operands of a non-commutative operator or of a
    chained comparison exchanged, branches of a conditional exchanged, a comparison operator or min/max replaced.
    Operands that are equal up to +/* commutation are never exchanged (that would be a cosmetic rewrite)."""
    import ast

    try:
        tree = ast.parse(expr, mode="eval")
    except SyntaxError:
        return

    def key(n: ast.AST) -> str:
        return json.dumps(yamlrw.normalise_expressions([{"derive": {"parameter_sweep": {"parameters": {"x": ast.unparse(n)}}}}]), sort_keys=True, default=str)

    nodes = [n for n in ast.walk(tree)]
    for idx, n in enumerate(nodes):
        def variant(edit) -> str:
            t2 = ast.parse(expr, mode="eval")
            m = [x for x in ast.walk(t2)][idx]
            edit(m)
            return ast.unparse(ast.fix_missing_locations(t2))

        if isinstance(n, ast.BinOp) and isinstance(n.op, (ast.Sub, ast.Div, ast.FloorDiv, ast.Mod, ast.Pow)) and key(n.left) != key(n.right):
            def e(m):
                m.left, m.right = m.right, m.left
            yield "expr_swap_noncommutative", variant(e)
        elif isinstance(n, ast.Compare):
            ops = [type(o) for o in n.ops]
            terms = [n.left] + list(n.comparators)
            if len(terms) >= 3 and not all(o is ast.Eq for o in ops) and key(terms[1]) != key(terms[2]):
                def e(m):
                    m.comparators[0], m.comparators[1] = m.comparators[1], m.comparators[0]
                yield "expr_chain_operands", variant(e)
            if len(terms) >= 3 and ops[0] is not ops[1]:
                def e(m):
                    m.ops[0], m.ops[1] = m.ops[1], m.ops[0]
                yield "expr_chain_operators", variant(e)
            if any(o in (ast.Lt, ast.Gt, ast.LtE, ast.GtE) for o in ops) and len(terms) == 2 and key(terms[0]) != key(terms[1]):
                def e(m):
                    m.left, m.comparators[0] = m.comparators[0], m.left
                yield "expr_swap_ordering", variant(e)
        elif isinstance(n, ast.BoolOp) and len(n.values) >= 2 and key(n.values[0]) != key(n.values[-1]):
            # `a and b` / `a or b` return one of their operands: exchanging them changes the value for numbers
            def e(m):
                m.values[0], m.values[-1] = m.values[-1], m.values[0]
            yield "expr_swap_boolean_operands", variant(e)
        elif isinstance(n, ast.IfExp) and key(n.body) != key(n.orelse):
            def e(m):
                m.body, m.orelse = m.orelse, m.body
            yield "expr_swap_branches", variant(e)
        elif isinstance(n, ast.Call) and isinstance(n.func, ast.Name) and n.func.id in ("min", "max") and len(n.args) >= 2 and key(n.args[0]) != key(n.args[1]):
            def e(m):
                m.func.id = "max" if m.func.id == "min" else "min"
            yield "expr_min_max", variant(e)


def mutations(case: Dict[str, Any]) -> Iterator[Tuple[str, int, Dict[str, Any], List[int]]]:
    """Yield (operator, position, mutated case, indexes of affected nodes in the ORIGINAL / mutant as applicable)."""
    nodes = case["nodes"]
    for i, n in enumerate(nodes):
        # processor
        if not n.get("sweep") and n["p"] in ALT:
            c = copy.deepcopy(case)
            c["nodes"][i]["p"] = ALT[n["p"]]
            c["nodes"][i].pop("context_key", None)
            if M.LIB[ALT[n["p"]]]["kind"] == "probe":
                c["nodes"][i]["context_key"] = n.get("context_key", "k1")
            yield "processor", i, c, [i]
        elif not n.get("sweep") and n["p"].startswith("rename:"):
            c = copy.deepcopy(case)
            c["nodes"][i]["p"] = n["p"] + "_z"
            yield "processor", i, c, [i]
        elif not n.get("sweep") and n["p"].startswith("delete:"):
            c = copy.deepcopy(case)
            c["nodes"][i]["p"] = n["p"] + "_z"
            yield "processor", i, c, [i]
        elif not n.get("sweep") and n["p"].startswith("template:"):
            mt = M.RE_TEMPLATE.match(n["p"])
            if mt:
                c = copy.deepcopy(case)  # same output key, different template text
                c["nodes"][i]["p"] = f'template:"{mt["template"]}_v2":{mt["out"]}'
                yield "processor_template_text", i, c, [i]
                c = copy.deepcopy(case)
                c["nodes"][i]["p"] = f'template:"{mt["template"]}":{mt["out"]}2'
                yield "processor", i, c, [i]
        elif not n.get("sweep") and n["p"].startswith("slice:"):
            ms = M.RE_SLICE.match(n["p"])
            if ms:
                alt = {"FloatMultiplyOperation": "FloatMultiplyOperationWithDefault", "FloatMultiplyOperationWithDefault": "FloatMultiplyOperation",
                       "FloatAddOperation": "FloatSquareOperation", "FloatSquareOperation": "FloatSqrtOperation", "FloatDivideOperation": "FloatSqrtOperation",
                       "VCtxWriteOp": "FloatSquareOperation", "VInPlaceScaleOp": "FloatSquareOperation", "FloatCollectValueProbe": "FloatBasicProbe",
                       "FloatBasicProbe": "FloatCollectValueProbe", "VEchoProbe": "FloatBasicProbe"}.get(ms["proc"])
                if alt:
                    c = copy.deepcopy(case)
                    c["nodes"][i]["p"] = f'slice:{alt}:{ms["collection"]}'
                    yield "processor_slice_wrapped", i, c, [i]
                c = copy.deepcopy(case)
                other = "VFloatCollection2" if ms["collection"] == "FloatDataCollection" else "FloatDataCollection"
                c["nodes"][i]["p"] = f'slice:{ms["proc"]}:{other}'
                yield "processor_slice_collection", i, c, [i]
        if not n.get("sweep") and n["p"].startswith("rename:") and "." not in n["p"]:
            mr = M.RE_RENAME.match(n["p"])
            if mr:  # dotted vs underscored keys are different keys
                c = copy.deepcopy(case)
                c["nodes"][i]["p"] = f'rename:{mr["src"]}:{mr["dst"]}.x'
                c2 = copy.deepcopy(case)
                c2["nodes"][i]["p"] = f'rename:{mr["src"]}:{mr["dst"]}_x'
                yield "processor_dotted_key", i, {"nodes": c["nodes"], "run_space": None, "_base_override": c2["nodes"]}, [i]
        # parameter values at any depth
        for path, v in _leaves(n.get("params") or {}):
            nv = _other(v)
            if nv is None:
                continue
            c = copy.deepcopy(case)
            _set(c["nodes"][i]["params"], path, nv)
            yield ("param_value_depth%d" % min(len(path), 3)), i, c, [i]
        for path, v in _leaves(n.get("params") or {}):
            for kind, nv in _fine_others(v):
                c = copy.deepcopy(case)
                _set(c["nodes"][i]["params"], path, nv)
                yield "param_" + kind, i, c, [i]
        for path, cont in _containers(n.get("params") or {}):
            if not path:
                continue
            if isinstance(cont, list) and len(cont) >= 2 and cont[0] != cont[-1]:
                c = copy.deepcopy(case)
                _set(c["nodes"][i]["params"], path, list(reversed(cont)))
                yield "param_list_reversed", i, c, [i]
            if isinstance(cont, list):
                c = copy.deepcopy(case)
                _set(c["nodes"][i]["params"], path, list(cont) + [cont[-1] if cont else 0.0])
                yield "param_list_length", i, c, [i]
            if isinstance(cont, dict) and cont:
                k0 = sorted(cont, key=str)[0]
                c = copy.deepcopy(case)
                nd = {(str(k) + "_" if k == k0 else k): v for k, v in cont.items()}
                _set(c["nodes"][i]["params"], path, nd)
                yield "param_dict_key", i, c, [i]
        # delete / insert / swap
        if len(nodes) > 1:
            c = copy.deepcopy(case)
            del c["nodes"][i]
            yield "delete_node", i, c, []
        c = copy.deepcopy(case)
        c["nodes"].insert(i, {"p": "FloatSquareOperation"})
        yield "insert_node", i, c, []
        ident = lambda x: {k: v for k, v in M.to_config({"nodes": [x]})[0].items() if k != "context_key"}  # noqa: E731
        if i + 1 < len(nodes) and ident(nodes[i]) != ident(nodes[i + 1]):
            c = copy.deepcopy(case)
            c["nodes"][i], c["nodes"][i + 1] = c["nodes"][i + 1], c["nodes"][i]
            yield "swap_nodes", i, c, [i, i + 1]
        # sweep definition
        sw = n.get("sweep")
        if not sw:
            continue
        if n["p"] in SWEEP_ALT:
            c = copy.deepcopy(case)
            c["nodes"][i]["p"] = SWEEP_ALT[n["p"]]
            yield "sweep_wrapped_processor", i, c, [i]
        names = list(sw["vars"])
        for pname, expr in sw.get("params", {}).items():
            for op, ne in list(mutate_expr(expr, names)) + list(ast_mutations(expr)):
                if yamlrw.normalise_expressions([{"derive": {"parameter_sweep": {"parameters": {"x": ne}}}}]) == \
                        yamlrw.normalise_expressions([{"derive": {"parameter_sweep": {"parameters": {"x": expr}}}}]):
                    continue
                c = copy.deepcopy(case)
                c["nodes"][i]["sweep"]["params"][pname] = ne
                yield "sweep_" + op, i, c, [i]
        for vname, spec in sw["vars"].items():
            def mv(field, value, op):
                c = copy.deepcopy(case)
                c["nodes"][i]["sweep"]["vars"][vname][field] = value
                return "sweep_var_" + op, i, c, [i]

            if spec["kind"] == "range":
                yield mv("lo", spec["lo"] + 0.25, "lo")
                yield mv("hi", spec["hi"] + 0.25, "hi")
                yield mv("steps", spec["steps"] + 1, "steps")
                yield mv("endpoint", not spec.get("endpoint", True), "endpoint")
                if spec["lo"] > 0 and spec["hi"] > 0:
                    yield mv("scale", "log" if spec.get("scale", "linear") == "linear" else "linear", "scale")
            elif spec["kind"] == "values":
                for j in range(len(spec["values"])):  # every position, interior ones included
                    vals = list(spec["values"])
                    if vals[j] + 1.0 == vals[j]:
                        continue  # inf + 1 is inf: not a change
                    vals[j] = vals[j] + 1.0
                    yield mv("values", vals, "sequence_element")
                yield mv("values", list(spec["values"]) + [7.0], "sequence_length")
                vals = list(spec["values"])
                for j in range(len(vals) - 1):  # order matters: same multiset, neighbouring elements exchanged
                    if vals[j] != vals[j + 1]:
                        sw2 = list(vals)
                        sw2[j], sw2[j + 1] = sw2[j + 1], sw2[j]
                        yield mv("values", sw2, "sequence_swap_adjacent")
                if len(vals) >= 2 and vals != vals[::-1]:
                    yield mv("values", vals[::-1], "sequence_reversed")
                if vals and all(isinstance(x, float) and x == x and abs(x) < 1e15 and x == int(x) for x in vals) and not spec.get("np"):
                    # same numbers, other YAML type: the elements the sweep produces differ in type (1 vs 1.0)
                    yield mv("values", [int(x) for x in vals], "sequence_retyped")
            else:
                other = [k for k in ("seq", "t_values", "a", "b") if k != spec["key"] and all(
                    not (s["kind"] == "ctx" and s["key"] == k) for s in sw["vars"].values())]
                yield mv("key", other[0], "from_context_key")
        c = copy.deepcopy(case)
        c["nodes"][i]["sweep"]["mode"] = "by_position" if sw["mode"] == "combinatorial" else "combinatorial"
        yield "sweep_mode", i, c, [i]
        c = copy.deepcopy(case)
        c["nodes"][i]["sweep"]["broadcast"] = not sw.get("broadcast", False)
        yield "sweep_broadcast", i, c, [i]
        if M.LIB[n["p"]]["kind"] != "probe":
            c = copy.deepcopy(case)
            c["nodes"][i]["sweep"]["collection"] = "VFloatCollection2" if sw.get("collection", "FloatDataCollection") == "FloatDataCollection" else "FloatDataCollection"
            yield "sweep_collection", i, c, [i]


def check_case(case: Dict[str, Any], col: Collector, only: Any = None) -> None:
    base_cfg = c04.to_mapping(case)
    base = c04.identity_record(base_cfg)
    rep0 = {"nodes": case["nodes"], "run_space": None}
    if "payload_error" in base:
        col.exclude(1, "base_not_inspectable")
        return
    if len(set(base["uuids"])) != len(base["uuids"]):
        col.add("duplicate_node_uuid", {}, rep0, base["uuids"])
    col.labels["configs"] += 1
    for op, pos, mutant, affected in mutations({"nodes": case["nodes"], "run_space": None}):
        if only is not None and [op, pos] != list(only):
            continue
        base_local, base_cfg_local = base, base_cfg
        if "_base_override" in mutant:  # compare two sibling variants (dotted vs underscored key) with each other
            sib = {"nodes": mutant.pop("_base_override"), "run_space": None}
            base_cfg_local = c04.to_mapping(sib)
            base_local = c04.identity_record(base_cfg_local)
            if "payload_error" in base_local:
                continue
        mcfg = c04.to_mapping(mutant)
        if yamlrw.strict_equal(yamlrw.normalise_expressions(mcfg), yamlrw.normalise_expressions(base_cfg_local)):
            col.exclude(1, "mutation_is_identity")
            continue
        got = c04.identity_record(mcfg)
        rep = {"nodes": case["nodes"], "mutation": [op, pos]}
        if "payload_error" in got:
            col.exclude(1, "mutant_not_inspectable")
            continue
        col.count(rep, ["op:" + op], True, sample={"mutation": [op, pos], "node": case["nodes"][pos], "mutant_node": mutant["nodes"][pos] if pos < len(mutant["nodes"]) else None})
        feats = {"op": op}
        if got["semantic_id"] == base_local["semantic_id"]:
            col.add("mutation_keeps_semantic_id", feats, rep, got["semantic_id"], "a different semantic ID")
        if got["config_id"] == base_local["config_id"]:
            col.add("mutation_keeps_config_id", feats, rep, got["config_id"], "a different config ID")
        for a in affected:
            if a < len(base_local["uuids"]) and a < len(got["uuids"]):
                if got["uuids"][a] == base_local["uuids"][a] and got["node_semantic_ids"][a] == base_local["node_semantic_ids"][a]:
                    col.add("mutation_keeps_node_identity", feats, rep, [got["uuids"][a], got["node_semantic_ids"][a]], "UUID or node semantic ID differs")
        if len(set(got["uuids"])) != len(got["uuids"]):
            col.add("duplicate_node_uuid", {}, rep, got["uuids"])


def special_clauses(col: Collector) -> None:
    """Identity-bearing differences that the YAML-shaped generator cannot express (class-valued processors, numpy sequences)."""
    import numpy as np

    from ..lib import components

    observe.ensure_registered()

    def ident(nodes):
        rec = c04.identity_record({"extensions": ["verif.lib.components"], "pipeline": {"nodes": nodes}})
        return rec

    def sweep_of(proc, values):
        return [{"processor": "FloatDataSource"},
                {"processor": proc, "derive": {"parameter_sweep": {"parameters": {"k": "2.0 * t"}, "variables": {"t": {"values": values}}, "collection": "FloatDataCollection"}}}]

    # (1) the wrapped processor: two different classes that share their __name__
    a, b = ident(sweep_of(components.VNsA.Scale, [1.0, 2.0])), ident(sweep_of(components.VNsB.Scale, [1.0, 2.0]))
    col.count({"special": "same_named_wrapped_classes"}, ["op:special_same_named_wrapped_classes"], True, key="special:same_named")
    if "payload_error" not in a and "payload_error" not in b:
        for f in ("semantic_id", "config_id"):
            if a.get(f) == b.get(f):
                col.add("mutation_keeps_" + f, {"op": "special_same_named_wrapped_classes"}, {"special": "same_named_wrapped_classes"}, a.get(f), "a different " + f)
    # (1b) any parameter value: the string-valued parameters of the model-fitting context processor
    base_params = {"fitting_model": "model:PolynomialFittingModel:degree=1", "independent_var_key": "t_values", "dependent_var_key": "measured", "context_key": "fit_out"}
    fit = lambda params: ident([{"processor": "FloatDataSource"}, {"processor": "ModelFittingContextProcessor", "parameters": dict(params)}])  # noqa: E731
    ra = fit(base_params)
    for pname, other in (("independent_var_key", "x_values"), ("dependent_var_key", "observed"), ("context_key", "fit_other"), ("fitting_model", "model:PolynomialFittingModel:degree=2")):
        rb = fit(dict(base_params, **{pname: other}))
        case = {"special": "model_fitting_parameter", "parameter": pname}
        col.count(case, ["op:special_model_fitting_parameter"], True, key="special:fit:" + pname)
        if "payload_error" in ra or "payload_error" in rb:
            col.exclude(1, "special_not_inspectable")
            continue
        for f in ("semantic_id", "config_id", "uuids"):
            if ra.get(f) == rb.get(f):
                col.add("mutation_keeps_" + ("node_identity" if f == "uuids" else f), {"op": "special_model_fitting_parameter", "parameter": pname}, case, ra.get(f), "a different " + f)
    # (2) the variable domain: long sequences of numpy integers (not JSON values) changed at one position
    for n in (40, 1000, 1001, 1201):
        base = [np.int64(i) for i in range(n)]
        ra = ident(sweep_of("VInPlaceScaleOp", base))
        for pos in (0, 3, n // 2, n - 4, n - 1):
            mut = list(base)
            mut[pos] = np.int64(10 ** 6 + pos)
            rb = ident(sweep_of("VInPlaceScaleOp", mut))
            case = {"special": "numpy_sequence_element", "n": n, "pos": pos}
            col.count(case, ["op:special_numpy_sequence_element"], True, key=f"special:np:{n}:{pos}")
            if "payload_error" in ra or "payload_error" in rb:
                col.exclude(1, "special_not_inspectable")
                continue
            for f in ("semantic_id", "config_id"):
                if ra.get(f) == rb.get(f):
                    col.add("mutation_keeps_" + f, {"op": "special_numpy_sequence_element", "n": n, "where": "edge" if pos in (0, n - 1) else "interior"}, case, ra.get(f), "a different " + f)


def plan(tier: str, seed: int, scale: float = 1.0) -> List[Dict[str, Any]]:
    nshards, n = (48, 16) if tier == "quick" else (320, 40)
    return [{"seed": seed * 9001 + i, "n": max(5, int(n * scale)), "timeout": 900} for i in range(nshards)] + [{"kind": "special", "timeout": 900}]


def run_shard(spec: Dict[str, Any]) -> Dict[str, Any]:
    col = Collector(max_hashes=2000000)
    if spec.get("kind") == "special":
        special_clauses(col)
        return col.result()
    run_campaign(c04.config_case(), lambda c: check_case(c, col), spec["n"], spec["seed"])
    return col.result()


def replay(case: Dict[str, Any]) -> List[Dict[str, Any]]:
    col = Collector()
    if case.get("special"):
        special_clauses(col)
        return [{"check": b["check"], "features": b["features"], "observed": b["observed"], "expected": b["expected"], "case": b["case"]}
                for b in col.buckets.values() if b["case"].get("special") == case["special"]]
    check_case(case, col, only=case.get("mutation"))
    return [{"check": b["check"], "features": b["features"], "observed": b["observed"], "expected": b["expected"],
             "case": b["case"]} for b in col.buckets.values()]


def valid(case: Any) -> bool:
    if isinstance(case, dict) and case.get("special"):
        return True
    return c04.valid(dict(case, rewrites=[]))


def shrink_candidates(case):
    """Drop nodes other than the mutated one (positions shift accordingly)."""
    op, pos = case.get("mutation", [None, 0])
    for i in range(len(case["nodes"])):
        if i == pos or (op == "swap_nodes" and i == pos + 1):
            continue
        c = copy.deepcopy(case)
        del c["nodes"][i]
        c["mutation"] = [op, pos - 1 if i < pos else pos]
        yield c


OPS = ["processor", "processor_template_text", "processor_slice_wrapped", "processor_slice_collection", "processor_dotted_key", "param_value_depth2", "param_value_depth3", "delete_node", "insert_node", "swap_nodes",
       "sweep_wrapped_processor", "sweep_expr_constant", "sweep_expr_variable", "sweep_expr_operator", "sweep_expr_plus_times", "sweep_var_lo", "sweep_var_hi",
       "sweep_var_steps", "sweep_var_scale", "sweep_var_endpoint", "sweep_var_sequence_element", "sweep_var_from_context_key",
       "sweep_mode", "sweep_broadcast", "sweep_collection",
       "param_str_trailing_space", "param_str_leading_space", "param_str_case", "param_float_ulp", "param_float_sign", "param_list_reversed", "param_list_length",
       "param_dict_key", "sweep_var_sequence_swap_adjacent", "sweep_var_sequence_reversed",
       "sweep_var_sequence_retyped", "special_same_named_wrapped_classes", "special_model_fitting_parameter", "sweep_expr_swap_boolean_operands", "sweep_expr_swap_noncommutative", "sweep_expr_chain_operands", "sweep_expr_swap_branches", "sweep_expr_min_max"]


def label_requirements(tier: str) -> Dict[str, Any]:
    return {"op:" + o: (1 if o.startswith("special_") else 10 if o in ("sweep_var_scale", "processor_dotted_key", "sweep_expr_swap_boolean_operands") else 40) for o in OPS}
