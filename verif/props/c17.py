"""C17 — the CLI never executes a configuration its pre-flight checks reject."""
from __future__ import annotations

import copy
import os
import shutil
import tempfile
from typing import Any, Dict, List, Optional, Set

import yaml
from hypothesis import strategies as st

from ..core.campaign import run_campaign
from ..core.collect import Collector
from ..lib import clidrv, model as M

ID = "C17"
LEVEL = "exploration"
RULE = ("Hypothesis-generated YAML files: a marker source first, generated middle nodes (context-resolved factor / divisor, marker "
        "operation, probe, template-named sink path, use-before-create shape) and a file-writing sink, with a JSONL trace "
        "directory configured and an optional run_space; made invalid in each documented way {bad YAML, missing file, no "
        "pipeline.nodes, unknown processor, unknown parameter, probe without context_key, type mismatch (adjacent and across a "
        "context-only node), deleted key required, missing required context key, run space with mismatched lengths / duplicate "
        "keys / missing source / cap exceeded, unknown --set key, usage error} or valid, x flags {--validate, --dry-run, "
        "--run-space-dry-run, --context k=v (all / one missing / extra), --set (valid->invalid, invalid->valid), "
        "--run-space-max-runs n} x a failing run at a generated index. Observed: exit code, marker file (one line per executed "
        "node instance), sink files, trace directory. non-trivial = an invalid class other than bad YAML, or >= 2 flags, or a "
        "run space; distinct = canonical JSON of the case")
ASSUMPTIONS = [
    "which keys are required is decided by the generator / reference semantics (order sensitive), not by the inspection under test",
    "a missing run-space source file may exit 2 (file error) or 3 (configuration error); --dry-run with a missing required key may exit 0 or 3; in both cases nothing may execute",
    "the in-process driver (semantiva.cli.main) is cross-checked against a real subprocess on a sample of every shard",
]

INVALID = ["none"] * 12 + ["bad_yaml", "missing_file", "no_nodes", "unknown_processor", "unknown_param", "probe_no_key",
           "type_mismatch", "type_mismatch_across_ctx", "deleted_key", "missing_ctx_key", "use_before_create_missing", "create_and_require_missing",
           "rs_mismatched", "rs_duplicate", "rs_duplicate_via_source", "rs_duplicate_via_source_first", "rs_missing_source", "rs_cap", "bad_set_key", "usage"]


@st.composite
def c17_case(draw):
    middle = draw(st.lists(st.sampled_from(["mul_ctx", "div_ctx", "markerop", "probe", "square"]), max_size=3))
    sink = draw(st.sampled_from(["fixed", "template", "fixed"]))
    invalid = draw(st.sampled_from(INVALID))
    rs_runs = draw(st.sampled_from([0, 0, 1, 2, 3]))
    if invalid.startswith("rs_"):
        rs_runs = max(rs_runs, 2)
    fail_at = draw(st.sampled_from([None, None, 0, 1, 2]))
    if fail_at is not None and "div_ctx" not in middle:
        middle.append("div_ctx")
    flags = draw(st.lists(st.sampled_from(["validate", "dry_run", "rs_dry_run"]), max_size=2, unique=True)) if draw(st.booleans()) else []
    return {"middle": middle, "sink": sink, "invalid": invalid, "rs_runs": rs_runs, "fail_at": fail_at, "flags": flags,
            "ctx_mode": draw(st.sampled_from(["all", "all", "all", "drop_one", "extra"])),
            "set_fix": draw(st.booleans()), "max_runs": draw(st.sampled_from([None, 0, None, 1, 100])),
            "yaml_dry_run": draw(st.integers(0, 4)) == 0,
            "rs_in_file_ctx": draw(st.booleans()), "rs_nested": draw(st.sampled_from([False, True, False]))}


def build(case: Dict[str, Any]) -> Dict[str, Any]:
    """Materialise: YAML mapping, argv, required keys, expected outcome."""
    nodes: List[Dict[str, Any]] = [{"p": "VMarkerSource", "params": {"marker": "marker.txt", "value": 2.0}}]
    required: List[str] = []
    for m in case["middle"]:
        if m == "mul_ctx":
            nodes.append({"p": "FloatMultiplyOperation"})
            required.append("factor")
        elif m == "div_ctx":
            nodes.append({"p": "FloatDivideOperation"})
            required.append("divisor")
        elif m == "markerop":
            nodes.append({"p": "VMarkerOp", "params": {"marker": "marker.txt"}})
        elif m == "probe":
            nodes.append({"p": "FloatCollectValueProbe", "context_key": "c"})
        else:
            nodes.append({"p": "FloatSquareOperation"})
    if case["sink"] == "template":
        nodes.append({"p": 'template:"out_{idx}.txt":path'})
        nodes.append({"p": "FloatTxtFileSaver"})
        required.append("idx")
    else:
        nodes.append({"p": "FloatTxtFileSaver", "params": {"path": "out.txt"}})
    inv = case["invalid"]
    sets: List[str] = []
    reject: Optional[Set[int]] = None  # expected exit codes when rejected before execution
    if inv == "unknown_param":
        target = next((x for x in nodes[1:] if M.describe(dict(x, context_key="c"))["kind"] != "ctx"), nodes[0])
        target.setdefault("params", {})["zz"] = 1.0
        reject = {3}
    elif inv == "probe_no_key":
        nodes.insert(1, {"p": "FloatCollectValueProbe"})
        reject = {3}
    elif inv == "type_mismatch":
        nodes.insert(1, {"p": "FloatCollectionSumOperation"})
        reject = {3}
    elif inv == "type_mismatch_across_ctx":
        nodes.insert(1, {"p": "rename:spare:spare2"})
        nodes.insert(2, {"p": "FloatCollectionSumOperation"})
        required.append("spare")
        reject = {3}
    elif inv == "deleted_key":
        nodes.insert(1, {"p": "delete:factor"})
        nodes.insert(2, {"p": "FloatMultiplyOperation"})
        required.append("factor")
        reject = {3}
    elif inv == "use_before_create_missing":
        nodes.insert(1, {"p": "FloatAddOperation"})
        nodes.insert(2, {"p": "FloatCollectValueProbe", "context_key": "addend"})
        required.append("addend")  # needed before the probe creates it
    elif inv == "create_and_require_missing":
        nodes.insert(1, {"p": 'template:"{outdir}_results":outdir'})  # reads and rewrites the same key
        required.append("outdir")
    elif inv == "unknown_processor":
        nodes.insert(1, {"p": "FloatSquareOperation"})
    required = list(dict.fromkeys(required))
    # ---- run space -------------------------------------------------------------------------------------
    n = case["rs_runs"]
    rs = None
    fail_at = case["fail_at"] if (case["fail_at"] is not None and "divisor" in required) else None
    ctx_values: Dict[str, Any] = {"factor": 3.0, "divisor": 2.0, "idx": 0, "spare": 1.0, "addend": 1.0, "outdir": "o"}
    rs_keys: List[str] = []
    files: Dict[str, str] = {}
    if n > 0:
        if fail_at is not None and fail_at >= n:
            fail_at = n - 1
        block_ctx: Dict[str, List[Any]] = {}
        if "idx" in required:
            block_ctx["idx"] = list(range(n))
        if "divisor" in required:
            block_ctx["divisor"] = [0.0 if fail_at == i else 2.0 + i for i in range(n)]
        if not block_ctx:
            block_ctx["tag"] = list(range(n))
        rs_keys = list(block_ctx)
        rs = {"combine": "combinatorial", "blocks": [{"mode": "by_position", "context": block_ctx}]}
        if inv == "rs_mismatched":
            k = next(iter(block_ctx))
            block_ctx["other"] = list(range(n + 1))
            reject = {3}
        elif inv == "rs_duplicate":
            rs["blocks"].append({"mode": "by_position", "context": {rs_keys[0]: list(range(n))}})
            reject = {3}
        elif inv in ("rs_duplicate_via_source", "rs_duplicate_via_source_first"):
            # the duplicate key arrives through a block's source file (the other block declares it inline)
            files["dup.csv"] = rs_keys[0] + "\n" + "\n".join(str(i) for i in range(n)) + "\n"
            blk = {"mode": "by_position", "source": {"format": "csv", "path": "dup.csv"}}
            if inv == "rs_duplicate_via_source":
                rs["blocks"].append(blk)
            else:
                rs["blocks"].insert(0, blk)
            reject = {3}
        elif inv == "rs_missing_source":
            rs["blocks"][0]["source"] = {"format": "csv", "path": "nope.csv"}
            reject = {2, 3}
        elif inv == "rs_cap":
            rs["max_runs"] = (n - 1) if case.get("rs_runs", 0) % 2 else 0  # a cap just below the plan, or a cap of zero
            if case["max_runs"] is None or case["max_runs"] < n:  # the CLI flag overrides the YAML value
                reject = {3}
    elif fail_at is not None:
        ctx_values["divisor"] = 0.0
    yaml_dry = bool(case.get("yaml_dry_run")) and rs is not None
    if yaml_dry:
        rs["dry_run"] = True  # the dry run is requested in the configuration, not on the command line
    # ---- context flags ---------------------------------------------------------------------------------
    need_cli = [k for k in required if k not in rs_keys]
    supplied = list(need_cli)
    dropped = None
    if inv in ("missing_ctx_key", "use_before_create_missing", "create_and_require_missing") or case["ctx_mode"] == "drop_one":
        prefer = "addend" if inv == "use_before_create_missing" else "outdir" if inv == "create_and_require_missing" else None
        if supplied:
            dropped = prefer if prefer in supplied else supplied[-1]
            supplied.remove(dropped)
    ctx_args: List[str] = []
    for k in supplied:
        ctx_args += ["--context", f"{k}={ctx_values[k]}"]
    if case["ctx_mode"] == "extra":
        ctx_args += ["--context", "unused=7"]
    cfg = clidrv.config_mapping(nodes, run_space=rs, trace={"driver": "jsonl", "output_path": "traces"})
    if rs is not None and case.get("rs_nested"):
        # as in the documentation's examples, the nested block spells its defaults out; command-line options still override them
        rs.setdefault("max_runs", 1000)
        rs.setdefault("dry_run", False)
        # the other accepted position of the block: under `pipeline:`
        cfg["pipeline"]["run_space"] = cfg.pop("run_space")
    if inv == "unknown_processor":
        cfg["pipeline"]["nodes"][1]["processor"] = "NoSuchProcessor"
        if case["set_fix"]:
            sets += ["--set", "pipeline.nodes.1.processor=FloatSquareOperation"]
        else:
            reject = {3}
    if inv == "none" and case["set_fix"] and len(nodes) > 2 and case["middle"]:
        sets += ["--set", "pipeline.nodes.1.processor=NoSuchProcessor"]
        reject = {3}
    if inv == "bad_set_key":
        sets += ["--set", "pipeline.nope.deeper=1"]
        reject = {3}
    text = yaml.safe_dump(cfg, sort_keys=False)
    path = "p.yaml"
    if inv == "bad_yaml":
        text = "pipeline:\n  nodes: [unclosed\n   - : :\n"
        reject = {3}
    elif inv == "missing_file":
        path = "does_not_exist.yaml"
        reject = {2}
    elif inv == "no_nodes":
        text = yaml.safe_dump({"extensions": [clidrv.EXT], "pipeline": {"steps": []}})
        reject = {3}
    argv = ["run", path, "-q"] + ctx_args + sets
    if inv == "usage":
        argv.append("--no-such-flag")
        reject = {1}
    if case["max_runs"] is not None and inv not in ("usage",):
        argv += ["--run-space-max-runs", str(case["max_runs"])]
        if reject is None and n > 0 and case["max_runs"] < n:
            reject = {3}
    flags = list(case["flags"])
    for f in flags:
        argv.append({"validate": "--validate", "dry_run": "--dry-run", "rs_dry_run": "--run-space-dry-run"}[f])
    # ---- expected outcome ----------------------------------------------------------------------------------
    structural = inv in ("bad_yaml", "missing_file", "no_nodes", "usage", "unknown_param", "probe_no_key", "type_mismatch",
                         "type_mismatch_across_ctx", "deleted_key", "bad_set_key") or \
        (inv == "unknown_processor" and not case["set_fix"]) or (inv == "none" and any("NoSuchProcessor" in s for s in sets))
    exp: Dict[str, Any] = {"executes": False}
    if structural:
        exp["codes"] = reject
    elif "validate" in flags:
        # --validate checks the pipeline; a run-space problem may or may not be reported by it
        exp["codes"] = {0, 3} if (reject is not None and inv.startswith("rs_")) else {0}
    elif reject is not None:  # run-space problems / cap (detected after validation, before execution)
        exp["codes"] = set(reject)
    elif dropped is not None:
        exp["codes"] = {0, 3} if ("dry_run" in flags or "rs_dry_run" in flags or yaml_dry) else {3}
    elif "rs_dry_run" in flags or "dry_run" in flags or yaml_dry:
        exp["codes"] = {0}
    else:
        runs = n if n > 0 else 1
        exp["executes"] = True
        if fail_at is not None:
            exp["codes"] = {4}
            exp["runs_started"] = (fail_at + 1) if n > 0 else 1
            exp["runs_completed"] = fail_at if n > 0 else 0
        else:
            exp["codes"] = {0}
            exp["runs_started"] = runs
            exp["runs_completed"] = runs
    exp["class"] = ("structural:" + inv) if structural else ("validate" if "validate" in flags and not structural else
                                                              "rejected:" + inv if reject is not None else
                                                              "missing_key" if dropped is not None else
                                                              "dry" if (flags or yaml_dry) else "run_fail" if fail_at is not None else "run_ok")
    return {"text": text, "argv": argv, "files": files, "expected": exp, "nodes": nodes, "n_marker_ops": sum(1 for x in nodes if x["p"] == "VMarkerOp")}


def observe_dir(d: str) -> Dict[str, Any]:
    marker = os.path.join(d, "marker.txt")
    lines = open(marker).read().split() if os.path.exists(marker) else []
    outs = sorted(f for f in os.listdir(d) if f.startswith("out") and f.endswith(".txt"))
    traces = clidrv.list_tree(os.path.join(d, "traces")) if os.path.isdir(os.path.join(d, "traces")) else []
    return {"source_runs": lines.count("source"), "op_marks": lines.count("op"), "sink_files": outs, "trace_files": traces,
            "trace_dir_exists": os.path.isdir(os.path.join(d, "traces"))}


def run_once(case: Dict[str, Any], b: Dict[str, Any], workroot: str, subprocess_mode: bool) -> Dict[str, Any]:
    d = tempfile.mkdtemp(prefix="c17-", dir=workroot)
    try:
        with open(os.path.join(d, "p.yaml"), "w") as fh:
            fh.write(b["text"])
        for name, text in (b.get("files") or {}).items():
            with open(os.path.join(d, name), "w") as fh:
                fh.write(text)
        res = clidrv.run_subprocess(b["argv"], d) if subprocess_mode else clidrv.run_inprocess(b["argv"], d)
        res["obs"] = observe_dir(d)
        return res
    finally:
        shutil.rmtree(d, ignore_errors=True)


def check_case(case: Dict[str, Any], col: Collector, workroot: str = ".", also_subprocess: bool = False) -> None:
    b = build(case)
    exp = b["expected"]
    res = run_once(case, b, workroot, False)
    obs = res["obs"]
    labs = ["class:" + exp["class"].split(":")[0], "invalid:" + case["invalid"]] + ["flag:" + f for f in case["flags"]] + \
           ["ctx:" + case["ctx_mode"], "run_space" if case["rs_runs"] else "no_run_space"]
    if case["max_runs"] is not None:
        labs.append("flag:max_runs")
    if case.get("yaml_dry_run") and case["rs_runs"]:
        labs.append("yaml_dry_run")
    if any(a == "--set" for a in b["argv"]):
        labs.append("flag:set")
    nflags = len(case["flags"]) + (case["max_runs"] is not None) + any(a == "--set" for a in b["argv"]) + (case["ctx_mode"] != "all")
    col.count(case, labs, (case["invalid"] not in ("none", "bad_yaml")) or nflags >= 2 or case["rs_runs"] > 0)
    feats = {"class": exp["class"]}
    rep = dict(case, argv=b["argv"])
    if res["exc"] is not None:
        col.add("cli_raised_instead_of_exit_code", dict(feats, exc=type(res["exc"]).__name__), rep, repr(res["exc"])[:200], sorted(exp["codes"]))
        return
    if res["code"] not in exp["codes"]:
        col.add("exit_code", dict(feats, got=res["code"]), rep, {"code": res["code"], "stderr": res["stderr"][-300:]}, sorted(exp["codes"]))
    executed = obs["source_runs"] > 0 or obs["op_marks"] > 0 or bool(obs["sink_files"]) or bool(obs["trace_files"])
    if not exp["executes"]:
        if executed:
            what = "node_executed" if obs["source_runs"] or obs["op_marks"] else "sink_output" if obs["sink_files"] else "trace_written"
            col.add("executed_although_rejected_or_dry", dict(feats, what=what), rep, obs, "no marker, no sink file, no trace entry")
    else:
        if obs["source_runs"] != exp["runs_started"]:
            col.add("runs_started", dict(feats, more=obs["source_runs"] > exp["runs_started"]), rep, obs, exp)
        if len(obs["sink_files"]) != min(exp["runs_completed"], 1 if case["sink"] != "template" or case["rs_runs"] == 0 else exp["runs_completed"]):
            if not (case["sink"] != "template" and exp["runs_completed"] >= 1 and len(obs["sink_files"]) == 1):
                col.add("sink_files", feats, rep, obs, exp)
        if res["code"] == 0 and exp["runs_completed"] != exp["runs_started"]:
            col.add("exit_zero_although_a_run_failed", feats, rep, obs, exp)
    if also_subprocess:
        res2 = run_once(case, b, workroot, True)
        col.labels["subprocess_crosscheck"] += 1
        o2 = res2["obs"]
        if res2["code"] != res["code"] or (o2["source_runs"], o2["op_marks"], o2["sink_files"], bool(o2["trace_files"])) != \
                (obs["source_runs"], obs["op_marks"], obs["sink_files"], bool(obs["trace_files"])):
            col.add("inprocess_and_subprocess_disagree", feats, rep, {"subprocess": [res2["code"], o2], "inprocess": [res["code"], obs]})


def plan(tier: str, seed: int, scale: float = 1.0) -> List[Dict[str, Any]]:
    nshards, n = (16, 300) if tier == "quick" else (64, 600)
    return [{"seed": seed * 4513 + i, "n": max(10, int(n * scale)), "subprocess_every": 40 if tier == "quick" else 30, "timeout": 1500} for i in range(nshards)]


def run_shard(spec: Dict[str, Any]) -> Dict[str, Any]:
    col = Collector()
    counter = [0]

    def fn(c):
        counter[0] += 1
        check_case(c, col, spec.get("workdir", "."), also_subprocess=(counter[0] % spec.get("subprocess_every", 40) == 0))

    run_campaign(c17_case(), fn, spec["n"], spec["seed"])
    return col.result()


def replay(case: Dict[str, Any]) -> List[Dict[str, Any]]:
    col = Collector()
    c = {k: v for k, v in case.items() if k != "argv"}
    check_case(c, col, ".", also_subprocess=True)
    return [{"check": b["check"], "features": b["features"], "observed": b["observed"], "expected": b["expected"],
             "case": b["case"]} for b in col.buckets.values()]


def valid(case: Any) -> bool:
    try:
        return case["invalid"] in INVALID and all(m in ("mul_ctx", "div_ctx", "markerop", "probe", "square") for m in case["middle"]) and \
            case["sink"] in ("fixed", "template") and isinstance(case["rs_runs"], int) and 0 <= case["rs_runs"] <= 3 and \
            (case["fail_at"] is None or (isinstance(case["fail_at"], int) and 0 <= case["fail_at"] <= 2)) and \
            all(f in ("validate", "dry_run", "rs_dry_run") for f in case["flags"]) and case["ctx_mode"] in ("all", "drop_one", "extra") and \
            isinstance(case["set_fix"], bool) and (case["max_runs"] is None or isinstance(case["max_runs"], int)) and \
            not (case["invalid"].startswith("rs_") and case["rs_runs"] < 2)
    except Exception:
        return False


def label_requirements(tier: str) -> Dict[str, Any]:
    req: Dict[str, Any] = {"class:run_ok": 0.03, "class:run_fail": 0.02, "class:dry": 0.02, "class:validate": 0.03, "class:missing_key": 0.02,
                           "flag:set": 0.02, "flag:max_runs": 0.1, "subprocess_crosscheck": 16, "yaml_dry_run": 0.03}
    for i in set(INVALID) - {"none"}:
        req["invalid:" + i] = 0.008
    return req
