"""C13 — trace aggregation is order-independent and right for every partial trace."""
from __future__ import annotations

import copy
import dataclasses
import json
import os
import shutil
import tempfile
from typing import Any, Dict, List, Optional, Tuple

from hypothesis import strategies as st

from ..core.campaign import run_campaign
from ..core.collect import Collector
from ..lib import clidrv, gen, model as M, observe, tracelib

ID = "C13"
LEVEL = "fault_enumeration"
RULE = ("real traces emitted by the runtime for Hypothesis-generated single runs (succeeding, or failing at a generated node) and "
        "run-space launches driven through `semantiva run` (1..4 runs, optional failing run at a generated index, single-file "
        "and directory output) x EVERY prefix length of the emission order (a crash at any line) x Hypothesis-drawn "
        "permutations, k-way interleavings that keep per-file order, and arbitrary subsets. Oracle (a) reference verdict per "
        "prefix; (b) finalize_all after any order of any subset equals finalize_all of the same set in emission order; "
        "(c) finalising twice changes nothing. non-trivial = trace with >= 3 SERs or >= 2 runs; each (trace, cut) and "
        "(trace, permutation) is one evaluation; distinct = hash of (normalised trace, cut / order)")
ASSUMPTIONS = [
    "specific verdicts are asserted for prefixes only (what a crash can produce); arbitrary subsets are used for order-independence only",
    "directory-mode emission order = run_space_start, each run file in run order, run_space_end (files are written strictly sequentially by one process)",
    "launch roll-ups count the runs whose pipeline_start is in the ingested set",
]


def as_map(agg) -> Dict[str, Any]:
    runs, launches = agg.finalize_all()
    out: Dict[str, Any] = {}
    for r in runs:
        d = dataclasses.asdict(r)
        out["run:" + d["run_id"]] = d
    for launch in launches:
        d = dataclasses.asdict(launch)
        out[f"launch:{d['run_space_launch_id']}:{d['run_space_attempt']}"] = d
    return json.loads(json.dumps(out, sort_keys=True, default=repr))


def aggregate(records: List[Dict[str, Any]], route: str = "list") -> Dict[str, Any]:
    """route: how the records reach the aggregator - a list, a one-shot generator, an iterator, or one by one."""
    from semantiva.trace.aggregation.aggregator import TraceAggregator

    agg = TraceAggregator()
    recs = copy.deepcopy(records)
    if route == "list":
        agg.ingest_many(recs)
    elif route == "generator":
        agg.ingest_many(r for r in recs)
    elif route == "iterator":
        agg.ingest_many(iter(tuple(recs)))
    else:
        for r in recs:
            agg.ingest(r)
    first = as_map(agg)
    second = as_map(agg)
    return {"first": first, "second": second}


def reference_verdict(prefix: List[Dict[str, Any]]) -> Dict[str, Any]:
    """The documented verdict for a prefix of an emitted trace (30 lines, trace_aggregator_v1.rst)."""
    runs: Dict[str, Dict[str, Any]] = {}
    launches: Dict[Tuple[str, int], Dict[str, Any]] = {}
    for rec in prefix:
        t = rec.get("record_type")
        if t in ("run_space_start", "run_space_end"):
            key = (rec["run_space_launch_id"], int(rec["run_space_attempt"]))
            ln = launches.setdefault(key, {"start": False, "end": False, "runs": set(), "planned": None})
            ln["start" if t == "run_space_start" else "end"] = True
            if t == "run_space_start":
                ln["planned"] = rec.get("run_space_planned_run_count")
        elif t == "pipeline_start":
            r = runs.setdefault(rec["run_id"], {"start": False, "end": False, "sers": set(), "canon": None})
            r["start"] = True
            r["canon"] = [n["node_uuid"] for n in rec["pipeline_spec_canonical"]["nodes"]]
            if rec.get("run_space_launch_id") is not None:
                key = (rec["run_space_launch_id"], int(rec["run_space_attempt"]))
                launches.setdefault(key, {"start": False, "end": False, "runs": set(), "planned": None})["runs"].add(rec["run_id"])
        elif t == "ser":
            r = runs.setdefault(rec["identity"]["run_id"], {"start": False, "end": False, "sers": set(), "canon": None})
            r["sers"].add(rec["identity"]["node_id"])
        elif t == "pipeline_end":
            runs.setdefault(rec["run_id"], {"start": False, "end": False, "sers": set(), "canon": None})["end"] = True
    out: Dict[str, Any] = {}
    for rid, r in runs.items():
        status = "complete" if r["start"] and r["end"] else "partial"
        problems = ([] if r["start"] else ["missing_pipeline_start"]) + ([] if r["end"] else ["missing_pipeline_end"])
        out["run:" + rid] = {"status": status, "problems": problems,
                             "missing_nodes": sorted(set(r["canon"] or []) - r["sers"]), "orphan_nodes": [], "nonterminal_nodes": []}
    for (lid, att), ln in launches.items():
        counts = {"complete": 0, "partial": 0, "invalid": 0}
        for rid in ln["runs"]:
            counts[out["run:" + rid]["status"]] += 1
        status = "complete" if ln["start"] and ln["end"] and not counts["partial"] and not counts["invalid"] else "partial"
        problems = ([] if ln["start"] else ["missing_run_space_start"]) + ([] if ln["end"] else ["missing_run_space_end"])
        out[f"launch:{lid}:{att}"] = {"status": status, "problems": problems, "runs_total": len(ln["runs"]), "runs_by_status": counts}
    return out


def compare_to_reference(got: Dict[str, Any], want: Dict[str, Any]) -> Optional[Tuple[str, Any, Any]]:
    if set(got) != set(want):
        return ("entities", sorted(got), sorted(want))
    for k, w in want.items():
        g = got[k]
        if k.startswith("run:"):
            for f in ("status", "problems", "missing_nodes", "orphan_nodes", "nonterminal_nodes"):
                if g[f] != w[f]:
                    return ("run." + f, g[f], w[f])
        else:
            if g["status"] != w["status"]:
                return ("launch.status", g["status"], w["status"])
            if g["problems"] != w["problems"]:
                return ("launch.problems", g["problems"], w["problems"])
            if g["summary"].get("runs_total") != w["runs_total"]:
                return ("launch.runs_total", g["summary"].get("runs_total"), w["runs_total"])
            if g["summary"].get("runs_by_status") != w["runs_by_status"]:
                return ("launch.runs_by_status", g["summary"].get("runs_by_status"), w["runs_by_status"])
    return None


# ---- trace production -----------------------------------------------------------------------------------
LAUNCH_PIPES = [
    [{"p": "FloatValueDataSource", "params": {"value": 8.0}}, {"p": "FloatDivideOperation"}, {"p": "FloatCollectValueProbe", "context_key": "c"}],
    [{"p": "FloatDataSource"}, {"p": "FloatDivideOperation"}, {"p": "FloatSquareOperation"}, {"p": "FloatBasicProbe", "context_key": "out"}, {"p": "FloatDataSink"}],
    [{"p": "FloatValueDataSourceWithDefault"}, {"p": "FloatDivideOperation"}],
]


def produce_launch(spec: Dict[str, Any], tdir: str) -> List[List[Dict[str, Any]]]:
    """Run a launch through the CLI; return the trace as a list of per-file record lists in emission order.
    With spec['retry'] the launch is run twice under one launch id (attempt 1, then attempt 2 which may fail elsewhere)."""
    if spec.get("retry"):
        out: List[List[Dict[str, Any]]] = []
        for att, fail in ((1, spec.get("fail")), (2, spec.get("fail2"))):
            sub = os.path.join(tdir, f"attempt{att}")
            os.makedirs(sub)
            ident = ["--run-space-idempotency-key", "retried-key"] if spec["retry"] == "idempotency_key" else ["--run-space-launch-id", spec.get("launch_id") or "retried-launch"]
            one = dict(spec, fail=fail, retry=False, cli=ident + ["--run-space-attempt", str(att)])
            out += produce_launch(one, sub)
        return out
    n, fail = spec["runs"], spec.get("fail")
    divisors = [2.0 + i for i in range(n)]
    if fail is not None and fail < n:
        divisors[fail] = 0.0
    rs = {"combine": "combinatorial", "blocks": [{"mode": "by_position", "context": {"divisor": divisors}}]}
    out = "trace.ser.jsonl" if spec["mode"] == "file" else "traces"
    cfg = clidrv.config_mapping(LAUNCH_PIPES[spec["pipe"] % len(LAUNCH_PIPES)], run_space=rs, trace={"driver": "jsonl", "output_path": out})
    clidrv.write_yaml(os.path.join(tdir, "p.yaml"), cfg)
    cli_args = list(spec.get("cli") or [])
    if not cli_args and spec.get("launch_id"):
        cli_args = ["--run-space-launch-id", spec["launch_id"]]  # an explicit id; any string is allowed
    clidrv.run_inprocess(["run", "p.yaml", "-q"] + cli_args, tdir)
    if spec["mode"] == "file":
        return [tracelib.read_jsonl(os.path.join(tdir, out))["records"]]
    files = sorted(os.listdir(os.path.join(tdir, out)))
    recs = {f: tracelib.read_jsonl(os.path.join(tdir, out, f))["records"] for f in files}
    rs_file = [f for f in files if "runspace-" in f]
    run_files = sorted([f for f in files if f not in rs_file], key=lambda f: recs[f][0].get("run_space_index", 0))
    # the driver re-opens the run-space file (with a fresh timestamp in its name) after every run closes it,
    # so the start and end records may live in two files
    rsr = [r for f in rs_file for r in recs[f]]
    starts = [r for r in rsr if r["record_type"] == "run_space_start"]
    ends = [r for r in rsr if r["record_type"] == "run_space_end"]
    return [starts] + [recs[f] for f in run_files] + [ends]


def examine(files: List[List[Dict[str, Any]]], meta: Dict[str, Any], data, col: Collector) -> None:
    emission = [r for f in files for r in f]
    n = len(emission)
    nser = sum(1 for r in emission if r.get("record_type") == "ser")
    nruns = sum(1 for r in emission if r.get("record_type") == "pipeline_start")
    nontriv = nser >= 3 or nruns >= 2
    trace_key = [tracelib.normalise_record(r) for r in emission]
    labs0 = ["kind:" + meta["kind"], "mode:" + meta.get("mode", "file")] + (["failing"] if meta.get("failing") else ["succeeding"])
    sample = {"trace": meta, "records": [r.get("record_type") for r in emission]}
    # (a) + (c): every prefix
    for cut in range(n + 1):
        prefix = emission[:cut]
        res = aggregate(prefix)
        col.count({"t": trace_key, "cut": cut}, labs0 + ["prefix"], nontriv, sample=dict(sample, cut=cut))
        if res["first"] != res["second"]:
            col.add("finalising_twice_changes_verdict", {"kind": meta["kind"]}, {"meta": meta, "cut": cut, "records": emission}, res["second"], res["first"])
        if cut % 3 == 0 or cut == n:
            for route in ("generator", "iterator", "one_by_one"):
                alt = aggregate(prefix, route)["first"]
                col.labels["ingest_route:" + route] += 1
                if alt != res["first"]:
                    col.add("verdict_depends_on_how_records_are_handed_over", {"route": route, "kind": meta["kind"]}, {"meta": meta, "cut": cut, "records": emission, "route": route},
                            {k: alt.get(k) for k in sorted(set(alt) | set(res["first"])) if alt.get(k) != res["first"].get(k)}, "the verdict of ingest_many(list)")
                    break
        d = compare_to_reference(res["first"], reference_verdict(prefix))
        if d:
            last = prefix[-1]["record_type"] if prefix else "empty"
            col.add("prefix_verdict", {"field": d[0], "last_record": last, "kind": meta["kind"]}, {"meta": meta, "cut": cut, "records": emission}, d[1], d[2])
    if meta.get("retry"):
        # what was launched: attempt 1 and attempt 2 of one launch id; the full trace must show exactly those two launches
        final = aggregate(emission)["first"]
        attempts = sorted(int(k.rsplit(":", 1)[1]) for k in final if k.startswith("launch:"))
        col.labels["retry_attempts_checked"] += 1
        if attempts != [1, 2]:
            col.add("launch_attempts_differ_from_what_was_launched", {"id": meta.get("retry")}, {"meta": meta, "cut": 10 ** 6}, attempts, [1, 2])  # replay re-runs the launch
    # (a'): a tailing aggregator (one object, ingest a line, finalise, ingest the next ...) must give, after every line,
    # the verdict a fresh aggregator gives for the same prefix (finalising is observational)
    from semantiva.trace.aggregation.aggregator import TraceAggregator

    tail = TraceAggregator()
    for cut, rec in enumerate(emission, start=1):
        tail.ingest(copy.deepcopy(rec))
        got_tail = as_map(tail)
        as_map(tail)
        fresh = aggregate(emission[:cut])["first"]
        col.labels["tailing_prefix"] += 1
        if got_tail != fresh:
            diff = sorted(k for k in set(got_tail) | set(fresh) if got_tail.get(k) != fresh.get(k))
            g, b = got_tail.get(diff[0], {}), fresh.get(diff[0], {})
            fields = sorted(f for f in set(g) | set(b) if g.get(f) != b.get(f))
            col.add("tailing_aggregator_differs_from_fresh", {"entity": diff[0].split(":")[0], "fields": fields[:3], "kind": meta["kind"]},
                    {"meta": meta, "cut": cut, "records": emission, "tailing": True}, {k: got_tail.get(k) for k in diff[:1]}, {k: fresh.get(k) for k in diff[:1]})
            break
    # (b): order independence on permutations, interleavings and subsets
    idx = list(range(n))
    for variant in range(meta.get("orders", 12)):
        kind = ["permutation", "interleaving", "subset_permutation"][variant % 3]
        if kind == "permutation":
            order = list(data.draw(st.permutations(idx)))
        elif kind == "interleaving":
            pos = [0] * len(files)
            offs = [sum(len(f) for f in files[:i]) for i in range(len(files))]
            order = []
            while len(order) < n:
                live = [i for i in range(len(files)) if pos[i] < len(files[i])]
                i = data.draw(st.sampled_from(live))
                order.append(offs[i] + pos[i])
                pos[i] += 1
        else:
            keep = [i for i in idx if data.draw(st.booleans())]
            order = list(data.draw(st.permutations(keep))) if keep else []
        subset_sorted = sorted(order)
        base = aggregate([emission[i] for i in subset_sorted])["first"]
        got = aggregate([emission[i] for i in order])["first"]
        col.count({"t": trace_key, "order": order}, labs0 + ["order:" + kind], nontriv and len(order) >= 3,
                  sample=dict(sample, order=order))
        if variant < 4 and order:
            # the same order fed to one long-lived aggregator that is finalised after every record
            tail2 = TraceAggregator()
            for i in order:
                tail2.ingest(copy.deepcopy(emission[i]))
                as_map(tail2)
            col.labels["tailing_order"] += 1
            got_t = as_map(tail2)
            if got_t != got:
                diff = sorted(k for k in set(got_t) | set(got) if got_t.get(k) != got.get(k))
                g, b = got_t.get(diff[0], {}), got.get(diff[0], {})
                fields = sorted(f for f in set(g) | set(b) if g.get(f) != b.get(f))
                col.add("tailing_aggregator_differs_from_fresh", {"entity": diff[0].split(":")[0], "fields": fields[:3], "kind": meta["kind"], "order_kind": kind},
                        {"meta": meta, "order": order, "records": emission, "tailing": True}, {k: got_t.get(k) for k in diff[:1]}, {k: got.get(k) for k in diff[:1]})
        if got != base:
            diff = sorted(k for k in set(got) | set(base) if got.get(k) != base.get(k))
            fields = []
            for k in diff[:1]:
                g, b = got.get(k, {}), base.get(k, {})
                fields = sorted(f for f in set(g) | set(b) if g.get(f) != b.get(f))
            col.add("verdict_depends_on_ingestion_order", {"order_kind": kind, "entity": diff[0].split(":")[0], "fields": fields[:3]},
                    {"meta": meta, "order": order, "records": emission}, {k: got.get(k) for k in diff[:1]}, {k: base.get(k) for k in diff[:1]})


@st.composite
def c13_case(draw):
    if draw(st.integers(0, 3)) == 0:
        return {"kind": "launch", "runs": draw(st.integers(1, 4)), "fail": draw(st.sampled_from([None, None, 0, 1, 2, 3])),
                "mode": draw(st.sampled_from(["file", "dir"])), "pipe": draw(st.integers(0, 2)),
                # a retried launch: the same launch id with attempt 1 and attempt 2, aggregated together
                "retry": draw(st.sampled_from([False, "launch_id", False, "idempotency_key"])),
                "launch_id": draw(st.sampled_from([None, "nightly:2026-10-05 eu-west", None, "run/7 #3", "L1"])), "fail2": draw(st.sampled_from([None, 0, None, 1]))}
    c = draw(gen.case(max_nodes=6, rare=True))
    if draw(st.sampled_from([False] * 4 + [True])):
        c["nodes"].append({"p": "NoSuchProcessorXYZ"})  # fails at instantiation: pipeline_start and pipeline_end, no SER
    return {"kind": "single", "case": c, "detail": draw(st.sampled_from(["hash", "all"]))}


def check_case(spec: Dict[str, Any], data, col: Collector, workroot: str = ".") -> None:
    tdir = tempfile.mkdtemp(prefix="c13-", dir=workroot)
    try:
        if spec["kind"] == "launch":
            files = produce_launch(spec, tdir)
            meta = dict(spec, failing=spec.get("fail") is not None and spec["fail"] < spec["runs"])
            if spec.get("retry"):
                col.labels["retried_launch"] += 1
        else:
            r = tracelib.run_traced({k: spec["case"][k] for k in ("nodes", "ctx", "data")}, spec.get("detail", "hash"), "file", tdir)
            if not r["constructed"] or not r["traces"]:
                col.exclude(1, "no_trace")
                return
            files = [r["traces"][0]["records"]]
            meta = {"kind": "single", "mode": "file", "failing": not r["ok"], "nodes": [n["p"] for n in spec["case"]["nodes"]]}
        if spec.get("orders"):
            meta["orders"] = spec["orders"]
        if not any(files):
            col.exclude(1, "empty_trace")
            return
        examine(files, meta, data, col)
    finally:
        shutil.rmtree(tdir, ignore_errors=True)
        for p in gen.PATHS:
            if os.path.exists(p):
                os.remove(p)


def plan(tier: str, seed: int, scale: float = 1.0) -> List[Dict[str, Any]]:
    nshards, n = (16, 150) if tier == "quick" else (64, 800)
    return [{"seed": seed * 1789 + i, "n": max(5, int(n * scale)), "orders": 12 if tier == "quick" else 30, "timeout": 900} for i in range(nshards)]


def run_shard(spec: Dict[str, Any]) -> Dict[str, Any]:
    col = Collector(max_samples=4, max_hashes=3000000, hash_len=12)
    strat = st.tuples(c13_case(), st.data())

    def fn(t):
        c, data = t
        c = dict(c, orders=spec.get("orders", 12))
        check_case(c, data, col, spec.get("workdir", "."))

    run_campaign(strat, fn, spec["n"], spec["seed"])
    return col.result()


class _FixedData:
    """Replay: deterministic 'draws' from a stored order."""

    def __init__(self, order):
        self.order = order

    def draw(self, strategy):  # pragma: no cover - only used when a replay lacks an explicit order
        import random

        from hypothesis import strategies as st_  # noqa: F401

        raise RuntimeError("replay needs explicit orders")


def replay(case: Dict[str, Any]) -> List[Dict[str, Any]]:
    """Replay a stored (meta, cut) or (meta, order) discrepancy: the trace is re-produced, then that cut / order is re-checked."""
    col = Collector()
    meta = case.get("meta", {"kind": "stored"})
    tdir = tempfile.mkdtemp(prefix="c13r-")
    try:
        if "records" in case:
            emission = case["records"]
        elif meta.get("kind") == "launch":
            emission = [r for f in produce_launch(meta, tdir) for r in f]
        else:
            return []
        if case.get("tailing") and "order" in case:
            from semantiva.trace.aggregation.aggregator import TraceAggregator

            order = [i for i in case["order"] if i < len(emission)]
            tail2 = TraceAggregator()
            for i in order:
                tail2.ingest(copy.deepcopy(emission[i]))
                as_map(tail2)
            fresh = aggregate([emission[i] for i in order])["first"]
            if as_map(tail2) != fresh:
                col.add("tailing_aggregator_differs_from_fresh", {"entity": "replayed"}, case, as_map(tail2), fresh)
        elif case.get("tailing"):
            from semantiva.trace.aggregation.aggregator import TraceAggregator

            tail = TraceAggregator()
            for cut, rec in enumerate(emission, start=1):
                tail.ingest(copy.deepcopy(rec))
                got_tail = as_map(tail)
                fresh = aggregate(emission[:cut])["first"]
                if got_tail != fresh:
                    col.add("tailing_aggregator_differs_from_fresh", {"entity": "replayed"}, case, got_tail, fresh)
                    break
        elif "cut" in case:
            prefix = emission[: case["cut"]]
            res = aggregate(prefix)
            if case.get("route"):
                alt = aggregate(prefix, case["route"])["first"]
                if alt != res["first"]:
                    col.add("verdict_depends_on_how_records_are_handed_over", {"route": case["route"], "kind": meta["kind"]}, case, alt, res["first"])
            if meta.get("retry") and case["cut"] >= len(emission):
                attempts = sorted(int(k.rsplit(":", 1)[1]) for k in res["first"] if k.startswith("launch:"))
                if attempts != [1, 2]:
                    col.add("launch_attempts_differ_from_what_was_launched", {"id": meta.get("retry")}, case, attempts, [1, 2])
            d = compare_to_reference(res["first"], reference_verdict(prefix))
            if d:
                col.add("prefix_verdict", {"field": d[0], "last_record": prefix[-1]["record_type"] if prefix else "empty", "kind": meta["kind"]}, case, d[1], d[2])
            if res["first"] != res["second"]:
                col.add("finalising_twice_changes_verdict", {"kind": meta["kind"]}, case, res["second"], res["first"])
        if "order" in case:
            order = [i for i in case["order"] if i < len(emission)]
            base = aggregate([emission[i] for i in sorted(order)])["first"]
            got = aggregate([emission[i] for i in order])["first"]
            if got != base:
                col.add("verdict_depends_on_ingestion_order", {"order_kind": "replayed"}, case, got, base)
    finally:
        shutil.rmtree(tdir, ignore_errors=True)
    return [{"check": b["check"], "features": b["features"], "observed": b["observed"], "expected": b["expected"],
             "case": b["case"]} for b in col.buckets.values()]


def shrink_candidates(case):
    return iter(())


def label_requirements(tier: str) -> Dict[str, Any]:
    return {"retried_launch": 20, "tailing_order": 500, "kind:launch": 0.1, "kind:single": 0.3, "failing": 0.2, "succeeding": 0.2, "mode:dir": 0.03, "prefix": 0.1,
            "order:permutation": 0.1, "order:interleaving": 0.1, "order:subset_permutation": 0.1}
