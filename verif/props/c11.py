"""C11 — sweep expressions are confined to the safe grammar and their own variables.

Domain: every ast.expr class of the running interpreter, composed exhaustively to depth 2 and by
single-path embedding to depth 3, plus a corpus of sandbox-escape idioms embedded at every child
position of every allowed composite, plus (thorough) Hypothesis-random deeper trees.

Oracles
 1. accept => safe, decided by an independent ``ast.walk`` whitelist checker (differential);
    a rejection must be an ExpressionError raised before any evaluation (no ``exec`` audit event).
 2. every accepted expression: its code object reads only variables / whitelisted functions, has
    no attribute / import / subscript / nested-code opcodes, and evaluating it raises no audit
    event besides its own top-level ``exec``.
"""
from __future__ import annotations

import ast
import dis
import itertools
import signal
import sys
import types
from typing import Any, Dict, Iterator, List, Optional, Tuple

from ..core.collect import Collector

ID = "C11"
LEVEL = "exploration"
EXHAUSTIVE = True
RULE = ("enumeration: every ast.expr class x every operator, all child slots filled from the leaf set "
        "(depth 1, complete), every slot of every composite filled with every depth-1 tree and "
        "representative pairs (depth 2), every slot of every whitelisted composite filled with depth-2 "
        "representatives (depth 3, single path); escape-idiom corpus embedded at every position; "
        "thorough adds Hypothesis-random trees to depth 5. Each tree is unparsed and re-parsed. "
        "non-trivial = the tree contains a Call or has depth >= 2; distinct = distinct source text")
ASSUMPTIONS = [
    "whitelist = the node kinds, operators and functions declared in semantiva/utils/safe_eval.py at the pinned commit, restated in the checker",
    "declared sweep variables are {x, y}; evaluation assignments are small ints/floats",
    "a call with keyword arguments whose values are all safe may be accepted or rejected (the keyword wrapper itself is not named in the whitelist)",
    "CPython audit hooks report every import/open/exec/compile performed during evaluation",
]

NAMES = ("x", "y")
SUPERSET_NAMES = ("x", "y", "u", "w", "abs", "open")  # a different sweep in the same process declares more variables
FUNCS = ("abs", "min", "max", "round", "float", "int", "str", "bool")
ALLOWED = {
    ast.Expression, ast.Load, ast.BinOp, ast.UnaryOp, ast.BoolOp, ast.Compare, ast.IfExp, ast.Call,
    ast.Name, ast.Constant, ast.Tuple, ast.Add, ast.Sub, ast.Mult, ast.Div, ast.FloorDiv, ast.Mod,
    ast.Pow, ast.USub, ast.UAdd, ast.And, ast.Or, ast.Eq, ast.NotEq, ast.Lt, ast.LtE, ast.Gt, ast.GtE,
}

BINOPS = [c for c in ast.operator.__subclasses__()]
UNOPS = [c for c in ast.unaryop.__subclasses__()]
CMPOPS = [c for c in ast.cmpop.__subclasses__()]
BOOLOPS = [c for c in ast.boolop.__subclasses__()]

ESCAPES = [
    "__import__('os').getcwd()", "().__class__.__mro__", "open('/nonexistent-verif')", "getattr(x, 'real')",
    "(lambda: x)()", "[x for x in (1, 2)]", "(w := x)", "f'{x}'", "x[0]", "x.real", "x.real.imag",
    "globals()", "__builtins__", "eval('1')", "type(x)", "vars()", "dir()",
    "{x: y}", "{x}", "[x, y]", "x if y else __import__('sys')", "abs.__self__", "(x).__class__",
    "str.__mro__", "print(x)", "compile('1', 's', 'eval')", "x @ y", "x | y", "x << 2", "~x", "not x",
    "x is y", "x in (1, 2)", "x[1:2]", "*x", "lambda: 1", "(yield x)", "int.from_bytes", "hash(x)",
    "len(str(x))", "pow(x, 2)", "sqrt(x)", "sum((x, y))", "input", "id", "samples", "max(x, key=samples)",
]


# ---------------------------------------------------------------------------------------------
# tree builders
def N(name: str) -> ast.Name:
    return ast.Name(id=name, ctx=ast.Load())


def K(v: Any) -> ast.Constant:
    return ast.Constant(value=v)


def leaves() -> List[ast.expr]:
    return [N("x"), N("y"), N("u"), N("abs"), K(1), K("s"), K(None)]


def _comp(it: ast.expr) -> List[ast.comprehension]:
    return [ast.comprehension(target=ast.Name(id="w", ctx=ast.Store()), iter=it, ifs=[], is_async=0)]


# every constructor: name -> (arity, builder(kids) -> ast.expr)
def constructors() -> List[Tuple[str, int, Any]]:
    C: List[Tuple[str, int, Any]] = []
    for op in BOOLOPS:
        C.append((f"BoolOp:{op.__name__}", 2, lambda k, op=op: ast.BoolOp(op=op(), values=list(k))))
    C.append(("NamedExpr", 1, lambda k: ast.NamedExpr(target=ast.Name(id="w", ctx=ast.Store()), value=k[0])))
    for op in BINOPS:
        C.append((f"BinOp:{op.__name__}", 2, lambda k, op=op: ast.BinOp(left=k[0], op=op(), right=k[1])))
    for op in UNOPS:
        C.append((f"UnaryOp:{op.__name__}", 1, lambda k, op=op: ast.UnaryOp(op=op(), operand=k[0])))
    C.append(("Lambda", 1, lambda k: ast.Lambda(
        args=ast.arguments(posonlyargs=[], args=[], kwonlyargs=[], kw_defaults=[], defaults=[]), body=k[0])))
    C.append(("IfExp", 3, lambda k: ast.IfExp(test=k[0], body=k[1], orelse=k[2])))
    C.append(("Dict", 2, lambda k: ast.Dict(keys=[k[0]], values=[k[1]])))
    C.append(("Set", 1, lambda k: ast.Set(elts=[k[0]])))
    C.append(("ListComp", 2, lambda k: ast.ListComp(elt=k[0], generators=_comp(k[1]))))
    C.append(("SetComp", 2, lambda k: ast.SetComp(elt=k[0], generators=_comp(k[1]))))
    C.append(("DictComp", 2, lambda k: ast.DictComp(key=k[0], value=K(1), generators=_comp(k[1]))))
    C.append(("GeneratorExp", 2, lambda k: ast.GeneratorExp(elt=k[0], generators=_comp(k[1]))))
    C.append(("Await", 1, lambda k: ast.Await(value=k[0])))
    C.append(("Yield", 1, lambda k: ast.Yield(value=k[0])))
    C.append(("YieldFrom", 1, lambda k: ast.YieldFrom(value=k[0])))
    for op in CMPOPS:
        C.append((f"Compare:{op.__name__}", 2, lambda k, op=op: ast.Compare(left=k[0], ops=[op()], comparators=[k[1]])))
    C.append(("Compare:chain", 3, lambda k: ast.Compare(left=k[0], ops=[ast.Lt(), ast.LtE()], comparators=[k[1], k[2]])))
    for f in ("abs", "min", "x", "open", "getattr"):
        C.append((f"Call:{f}:args1", 1, lambda k, f=f: ast.Call(func=N(f), args=[k[0]], keywords=[])))
        C.append((f"Call:{f}:args2", 2, lambda k, f=f: ast.Call(func=N(f), args=[k[0], k[1]], keywords=[])))
        C.append((f"Call:{f}:star", 1, lambda k, f=f: ast.Call(func=N(f), args=[ast.Starred(value=k[0], ctx=ast.Load())], keywords=[])))
        C.append((f"Call:{f}:kw", 1, lambda k, f=f: ast.Call(func=N(f), args=[], keywords=[ast.keyword(arg="k", value=k[0])])))
        C.append((f"Call:{f}:argkw", 2, lambda k, f=f: ast.Call(func=N(f), args=[k[0]], keywords=[ast.keyword(arg="k", value=k[1])])))
        C.append((f"Call:{f}:kwstar", 1, lambda k, f=f: ast.Call(func=N(f), args=[], keywords=[ast.keyword(arg=None, value=k[0])])))
        if f not in ("abs", "open"):
            continue
        C.append((f"Call:{f}:kwstar2", 2, lambda k, f=f: ast.Call(func=N(f), args=[], keywords=[ast.keyword(arg=None, value=k[0]), ast.keyword(arg=None, value=k[1])])))
        C.append((f"Call:{f}:kw2", 2, lambda k, f=f: ast.Call(func=N(f), args=[], keywords=[ast.keyword(arg="k", value=k[0]), ast.keyword(arg="j", value=k[1])])))
        C.append((f"Call:{f}:kw+kwstar", 2, lambda k, f=f: ast.Call(func=N(f), args=[K(1)], keywords=[ast.keyword(arg="k", value=k[0]), ast.keyword(arg=None, value=k[1])])))
        C.append((f"Call:{f}:star2", 2, lambda k, f=f: ast.Call(func=N(f), args=[ast.Starred(value=k[0], ctx=ast.Load()), ast.Starred(value=k[1], ctx=ast.Load())], keywords=[])))
    C.append(("Call:func", 1, lambda k: ast.Call(func=k[0], args=[K(1)], keywords=[])))
    C.append(("Call:attrfunc", 1, lambda k: ast.Call(func=ast.Attribute(value=k[0], attr="real", ctx=ast.Load()), args=[], keywords=[])))
    C.append(("JoinedStr", 1, lambda k: ast.JoinedStr(values=[K("s"), ast.FormattedValue(value=k[0], conversion=-1)])))
    C.append(("JoinedStr:spec", 1, lambda k: ast.JoinedStr(values=[ast.FormattedValue(
        value=N("x"), conversion=-1, format_spec=ast.JoinedStr(values=[ast.FormattedValue(value=k[0], conversion=-1)]))])))
    C.append(("Attribute", 1, lambda k: ast.Attribute(value=k[0], attr="real", ctx=ast.Load())))
    C.append(("Subscript", 2, lambda k: ast.Subscript(value=k[0], slice=k[1], ctx=ast.Load())))
    C.append(("Slice", 2, lambda k: ast.Subscript(value=N("x"), slice=ast.Slice(lower=k[0], upper=k[1]), ctx=ast.Load())))
    C.append(("Starred", 1, lambda k: ast.Tuple(elts=[ast.Starred(value=k[0], ctx=ast.Load())], ctx=ast.Load())))
    C.append(("List", 2, lambda k: ast.List(elts=[k[0], k[1]], ctx=ast.Load())))
    C.append(("Tuple", 2, lambda k: ast.Tuple(elts=[k[0], k[1]], ctx=ast.Load())))
    return C


WHITELISTED_CTORS_PREFIX = ("BoolOp:And", "BoolOp:Or", "BinOp:Add", "BinOp:Sub", "BinOp:Mult", "BinOp:Div",
                            "BinOp:FloorDiv", "BinOp:Mod", "BinOp:Pow", "UnaryOp:USub", "UnaryOp:UAdd", "IfExp",
                            "Compare:Eq", "Compare:Lt", "Compare:chain", "Call:abs", "Call:min", "Tuple")


def unparse(tree: ast.expr) -> Optional[str]:
    try:
        return ast.unparse(ast.fix_missing_locations(ast.Expression(body=tree)))
    except Exception:
        return None


def sources(tier: str, shard: int = 0, of: int = 1) -> Iterator[Tuple[str, str]]:
    """Yield (family, source) pairs of this shard; deterministic; candidate i belongs to shard i % of."""
    import copy

    L = leaves()
    CT = constructors()
    WL = [c for c in CT if c[0].startswith(WHITELISTED_CTORS_PREFIX)]
    full = tier == "thorough"
    counter = [-1]

    def mine() -> bool:
        counter[0] += 1
        return counter[0] % of == shard

    def emit(fam, b, kids):
        s = unparse(b([copy.deepcopy(k) for k in kids]))
        return (fam, s) if s is not None else None

    benign = [N("x"), K(1), N("y")]
    # depth 1: complete product over leaves
    d1: List[ast.expr] = []
    for name, ar, b in CT:
        for kids in itertools.product(L, repeat=ar):
            d1.append(b([copy.deepcopy(k) for k in kids]))
            if mine():
                r = emit("d1", b, kids)
                if r:
                    yield r
    # representatives of depth 1: one per constructor (r1) / one per node class (r1c), benign children
    r1: List[ast.expr] = []
    r1c: List[ast.expr] = []
    seen_cls = set()
    for name, ar, b in CT:
        t = b([copy.deepcopy(benign[i]) for i in range(ar)])
        r1.append(t)
        if name.split(":")[0] not in seen_cls or name.startswith("Call:"):
            seen_cls.add(name.split(":")[0])
            r1c.append(t)
    # depth 2: every slot of every (quick: whitelisted) constructor <- every depth-1 tree (single path)
    for name, ar, b in (CT if full else WL):
        for slot in range(ar):
            for t in d1:
                if mine():
                    kids = list(benign[:ar])
                    kids[slot] = t
                    r = emit("d2", b, kids)
                    if r:
                        yield r
    # depth 2: representative pairs for arity >= 2
    for name, ar, b in (CT if full else WL):
        if ar < 2:
            continue
        for a, c in itertools.product(r1 if full else r1c, repeat=2):
            if mine():
                r = emit("d2p", b, [a, c] + [benign[0]] * (ar - 2))
                if r:
                    yield r
    # depth-2 representatives: every slot of every constructor <- every representative
    r2: List[ast.expr] = []
    for name, ar, b in (CT if full else WL):
        for slot in range(ar):
            for t in (r1 if full else r1c):
                kids = [copy.deepcopy(benign[i]) for i in range(ar)]
                kids[slot] = copy.deepcopy(t)
                r2.append(b(kids))
    # depth 3: every slot of every whitelisted constructor <- every depth-2 representative
    for name, ar, b in WL:
        for slot in range(ar):
            for t in r2:
                if mine():
                    kids = list(benign[:ar])
                    kids[slot] = t
                    r = emit("d3", b, kids)
                    if r:
                        yield r
    # wide nodes: every list-valued field with 3..5 entries, the interesting child at every index
    esc_trees = []
    for e in ESCAPES:
        try:
            esc_trees.append(ast.parse(e, mode="eval").body)
        except SyntaxError:
            pass
    wide_hosts = [
        ("BoolOp:And", lambda kids: ast.BoolOp(op=ast.And(), values=kids)),
        ("BoolOp:Or", lambda kids: ast.BoolOp(op=ast.Or(), values=kids)),
        ("Call:min:args", lambda kids: ast.Call(func=N("min"), args=kids, keywords=[])),
        ("Call:round:kwargs", lambda kids: ast.Call(func=N("round"), args=[K(1)], keywords=[ast.keyword(arg=f"k{i}", value=k) for i, k in enumerate(kids)])),
        ("Call:abs:kwstars", lambda kids: ast.Call(func=N("abs"), args=[], keywords=[ast.keyword(arg=None, value=k) for k in kids])),
        ("Compare:chain", lambda kids: ast.Compare(left=kids[0], ops=[ast.Lt() for _ in kids[1:]], comparators=kids[1:])),
        ("Tuple", lambda kids: ast.Tuple(elts=kids, ctx=ast.Load())),
        ("IfExp:nested", lambda kids: ast.IfExp(test=kids[0], body=kids[1], orelse=ast.IfExp(test=kids[2], body=kids[-1], orelse=kids[-2]))),
    ]
    for hname, hb in wide_hosts:
        for width in (3, 4, 5):
            for pos in range(width):
                for child in L + r1c + esc_trees:
                    if mine():
                        kids = [copy.deepcopy(benign[i % 3]) for i in range(width)]
                        kids[pos] = copy.deepcopy(child)
                        s_ = unparse(hb(kids))
                        if s_ is not None:
                            yield ("wide", s_)
    # escape corpus: as is, and embedded at every slot of every whitelisted constructor (two levels)
    for e in ESCAPES:
        if mine():
            yield ("esc", e)
        try:
            et = ast.parse(e, mode="eval").body
        except SyntaxError:
            continue
        for name, ar, b in WL:
            for slot in range(ar):
                kids = [copy.deepcopy(benign[i]) for i in range(ar)]
                kids[slot] = copy.deepcopy(et)
                inner = b(kids)
                if mine():
                    s = unparse(copy.deepcopy(inner))
                    if s is not None:
                        yield ("esc1", s)
                for name2, ar2, b2 in WL:
                    for slot2 in range(ar2):
                        if mine():
                            kids2 = list(benign[:ar2])
                            kids2[slot2] = inner
                            r = emit("esc2", b2, kids2)
                            if r:
                                yield r


# ---------------------------------------------------------------------------------------------
# independent checker
def classify(src: str) -> Dict[str, Any]:
    """Return {'verdict': 'syntax'|'unsafe'|'safe'|'safe_kw', 'position':…, 'kind':…, 'depth':…, 'has_call':…}"""
    try:
        tree = ast.parse(src, mode="eval")
    except (SyntaxError, ValueError, RecursionError, MemoryError):
        return {"verdict": "syntax", "has_call": False, "depth": 0}
    callee = set()
    bad_calls = []
    for n in ast.walk(tree):
        if isinstance(n, ast.Call):
            if isinstance(n.func, ast.Name) and n.func.id in FUNCS:
                callee.add(id(n.func))
            else:
                bad_calls.append(n)
    in_kw = set()
    has_kw = False
    for n in ast.walk(tree):
        if isinstance(n, ast.keyword):
            has_kw = True
            for m in ast.walk(n.value):
                in_kw.add(id(m))
    offenders: List[Tuple[bool, str]] = []
    for n in ast.walk(tree):
        if isinstance(n, ast.keyword):
            continue
        inside = id(n) in in_kw
        if type(n) not in ALLOWED:
            offenders.append((inside, type(n).__name__))
        elif isinstance(n, ast.Name) and id(n) not in callee and n.id not in NAMES:
            offenders.append((inside, "Name:undeclared"))
        elif isinstance(n, ast.Call) and n in bad_calls:
            offenders.append((inside, "Call:target"))

    def depth(n: ast.AST) -> int:
        ks = [depth(c) for c in ast.iter_child_nodes(n) if isinstance(c, (ast.expr, ast.keyword, ast.comprehension))]
        return 1 + max(ks) if ks else 0

    info = {"has_call": any(isinstance(n, ast.Call) for n in ast.walk(tree)), "depth": depth(tree.body)}
    if offenders:
        only_kw = all(i for i, _ in offenders)
        info.update(verdict="unsafe", position="call_keyword" if only_kw else "other",
                    kind=sorted(k for _, k in offenders)[0])
    else:
        info.update(verdict="safe_kw" if has_kw else "safe")
    return info


BAD_OPS = ("LOAD_ATTR", "LOAD_METHOD", "IMPORT_NAME", "IMPORT_FROM", "LOAD_GLOBAL", "STORE_", "DELETE_",
           "MAKE_FUNCTION", "LOAD_BUILD_CLASS", "BINARY_SUBSCR", "BINARY_SLICE", "FORMAT_VALUE", "BUILD_STRING",
           "BUILD_LIST", "BUILD_SET", "BUILD_MAP", "GET_ITER", "YIELD", "GET_AWAITABLE", "LOAD_DEREF",
           "LOAD_CLOSURE", "CALL_FUNCTION_EX", "DICT_MERGE", "LIST_EXTEND", "LOAD_SUPER", "LOAD_LOCALS",
           "LOAD_FROM_DICT", "FOR_ITER", "SEND", "UNPACK")


def code_of(fn: Any) -> Optional[types.CodeType]:
    for cell in getattr(fn, "__closure__", None) or ():
        try:
            v = cell.cell_contents
        except ValueError:
            continue
        if isinstance(v, types.CodeType):
            return v
    return None


def bytecode_issues(code: types.CodeType, has_kw: bool) -> List[str]:
    issues = []
    extra = set(code.co_names) - set(NAMES) - set(FUNCS)
    if extra:
        issues.append("names:" + ",".join(sorted(extra)))
    if any(isinstance(c, types.CodeType) for c in code.co_consts):
        issues.append("nested_code")
    for ins in dis.get_instructions(code):
        if ins.opname.startswith(BAD_OPS):
            if has_kw and ins.opname in ("BUILD_MAP", "DICT_MERGE", "CALL_FUNCTION_EX", "BUILD_TUPLE", "LIST_EXTEND", "BUILD_LIST"):
                continue  # f(**x) compiles to these
            issues.append("op:" + ins.opname)
    return sorted(set(issues))


class Audit:
    """Process-wide audit hook (cannot be removed; lives in the shard's interpreter only)."""

    def __init__(self) -> None:
        self.active = False
        self.events: List[str] = []
        self.block = False
        sys.addaudithook(self._hook)

    def _hook(self, event: str, args: tuple) -> None:
        if not self.active:
            return
        self.events.append(event)
        if self.block and (event in ("import", "open", "compile") or event.startswith(("os.", "subprocess.", "socket.", "ctypes."))):
            raise PermissionError("blocked by verif audit hook: " + event)

    def __call__(self, block: bool):
        self.block = block
        return self

    def __enter__(self):
        self.events = []
        self.active = True
        return self

    def __exit__(self, *a):
        self.active = False
        return False


class _EvalTimeout(BaseException):
    pass


def _on_alarm(*_a):
    raise _EvalTimeout()


signal.signal(signal.SIGALRM, _on_alarm)

ASSIGNMENTS = ({"x": 2, "y": 3}, {"x": -1.5, "y": 0})


def check_source(src: str, family: str, ev, ExpressionError, audit: Audit, col: Collector) -> None:
    info = classify(src)
    case = {"expr": src, "names": list(NAMES)}
    accepted = False
    other_exc = None
    with audit(False):
        try:
            fn = ev.compile(src, set(NAMES))
            accepted = True
        except ExpressionError:
            pass
        except RecursionError:
            other_exc = None  # resource limit, not a verdict
        except BaseException as exc:  # noqa: BLE001 - any other type is itself a discrepancy
            other_exc = type(exc).__name__
        compile_events = list(audit.events)
    labels = [family, "verdict:" + info["verdict"], "accepted" if accepted else "rejected"]
    nontrivial = bool(info.get("has_call") or info.get("depth", 0) >= 2)
    col.count(case, labels, nontrivial, key=src)

    if "exec" in compile_events:
        col.add("evaluated_during_compile", {"verdict": info["verdict"]}, case, observed=compile_events)
    if other_exc is not None:
        col.add("rejected_with_other_exception", {"exception": other_exc, "verdict": info["verdict"],
                                                   "position": info.get("position", "none")}, case,
                observed=other_exc, expected="ExpressionError")
    if accepted and info["verdict"] in ("unsafe", "syntax"):
        col.add("accepted_unsafe", {"position": info.get("position", "syntax"), "kind": info.get("kind", "syntax")},
                case, observed="accepted", expected="ExpressionError")
    if not accepted and info["verdict"] == "safe" and other_exc is None:
        col.labels["info:safe_but_rejected"] += 1
    # ---- history: the verdict for a declared-name set must not depend on what was compiled before -----------
    # (the same text is first compiled with a superset of names, then again with the real set)
    if other_exc is None and info["verdict"] != "syntax":
        again = None
        try:
            try:
                ev.compile(src, set(SUPERSET_NAMES))
            except ExpressionError:
                pass
            try:
                ev.compile(src, set(NAMES))
                again = True
            except ExpressionError:
                again = False
        except BaseException:  # noqa: BLE001 - already reported by the first compile
            again = None
        col.labels["history_recompile"] += 1
        if again is not None and again != accepted:
            col.add("verdict_depends_on_compile_history", {"first": "accepted" if accepted else "rejected", "verdict": info["verdict"]}, case,
                    observed="accepted" if again else "rejected", expected="accepted" if accepted else "rejected")
    if not accepted:
        return
    # ---- oracle 2: confinement of accepted expressions -------------------------------------------
    pos = info.get("position", "none")
    code = code_of(fn)
    if code is None:
        col.labels["info:no_code_object_found"] += 1
    else:
        issues = bytecode_issues(code, info["verdict"] == "safe_kw" or pos == "call_keyword")
        if issues:
            col.add("accepted_code_reads_outside_variables", {"position": pos, "issue": issues[0].split(":")[0]},
                    case, observed=issues)
    for asg in ASSIGNMENTS:
        with audit(True):
            signal.setitimer(signal.ITIMER_REAL, 1.0)
            try:
                fn(**asg)
            except _EvalTimeout:
                col.inconclusive += 1
            except BaseException:  # noqa: BLE001 - evaluation errors (TypeError, ZeroDivisionError) are fine
                pass
            finally:
                signal.setitimer(signal.ITIMER_REAL, 0)
            evs = list(audit.events)
        col.labels["evaluated"] += 1
        extra = list(evs)
        if "exec" in extra:
            extra.remove("exec")  # the expression's own top-level eval
        if extra:
            col.add("evaluation_side_effect", {"position": pos, "event": sorted(set(extra))[0]}, case, observed=extra)


# ---------------------------------------------------------------------------------------------
def _random_sources(seed: int, n: int) -> List[str]:
    import hypothesis
    from hypothesis import HealthCheck, Phase, given, settings, strategies as st

    CT = constructors()
    leaf = st.sampled_from(["x", "y", "u", "abs", "1", "'s'", "2.5", "None", "True"]).map(
        lambda s: ast.parse(s, mode="eval").body)

    def extend(children):
        def build(args):
            (name, ar, b), kids = args
            return b(list(kids[:ar]))
        # bias towards whitelisted constructors so that deep trees stay accepted long enough to hide something
        wl = [c for c in CT if c[0].startswith(WHITELISTED_CTORS_PREFIX)]
        return st.tuples(st.one_of(st.sampled_from(wl), st.sampled_from(wl), st.sampled_from(CT)),
                         st.lists(children, min_size=3, max_size=3)).map(build)

    strat = st.recursive(leaf, extend, max_leaves=12)
    out: List[str] = []

    @hypothesis.seed(seed)
    @settings(max_examples=n, database=None, deadline=None, derandomize=False, phases=[Phase.generate],
              suppress_health_check=list(HealthCheck))
    @given(strat)
    def run(t):
        import copy

        s = unparse(copy.deepcopy(t))
        if s is not None:
            out.append(s)

    run()
    return out


def plan(tier: str, seed: int, scale: float = 1.0) -> List[Dict[str, Any]]:
    shards = 16
    specs = [{"kind": "enum", "shard": i, "of": shards, "seed": seed} for i in range(shards)]
    nrand = int((2000 if tier == "quick" else 14000) * scale)
    specs += [{"kind": "random", "seed": seed * 1000 + i, "n": nrand} for i in range(4 if tier == "quick" else 16)]
    specs.append({"kind": "yaml", "seed": seed})
    nf = int((12000 if tier == "quick" else 250000) * scale)
    from .fuzz_expr import ensure_atheris

    ensure_atheris()
    specs += [{"kind": "fuzz", "seed": seed * 1000 + 500 + i, "n": nf} for i in range(2 if tier == "quick" else 12)]
    return specs


def run_shard(spec: Dict[str, Any]) -> Dict[str, Any]:
    from semantiva.utils.safe_eval import ExpressionError, ExpressionEvaluator

    col = Collector(max_hashes=2000000, hash_len=10)
    audit = Audit()
    # history: another evaluator with extra functions existed in this process (a documented constructor option);
    # it must not widen what a default evaluator accepts afterwards
    try:
        import math as _math

        ExpressionEvaluator(allowed_funcs={"len": len, "pow": pow, "sqrt": _math.sqrt, "sum": sum}).compile("abs(x)", {"x"})
    except BaseException:  # noqa: BLE001
        pass
    ev = ExpressionEvaluator()
    if spec["kind"] == "enum":
        seen = set()
        for fam, src in sources(spec["tier"], spec["shard"], spec["of"]):
            if src in seen:
                continue
            seen.add(src)
            check_source(src, fam, ev, ExpressionError, audit, col)
    elif spec["kind"] == "random":
        for src in _random_sources(spec["seed"], spec["n"]):
            check_source(src, "random", ev, ExpressionError, audit, col)
    elif spec["kind"] == "yaml":
        _yaml_path(col, audit)
        _yaml_from_context_names(col, audit)
        _yaml_history(col, audit)
    elif spec["kind"] == "fuzz":
        from .fuzz_expr import run_child

        return run_child("c11", spec)
    return col.result()


def _yaml_path(col: Collector, audit: Audit) -> None:
    """The same verdicts must hold through the YAML `derive.parameter_sweep.parameters` path."""
    from semantiva.pipeline import Pipeline

    from ..lib import observe

    observe.ensure_registered()
    exprs = ESCAPES + ["str(object=__import__('os').getcwd())", "abs(k=x.real)", "min(1, k=open)", "2 * t", "abs(t) + 1"]
    for e in exprs:
        src = e.replace("x", "t") if e in ("2 * t",) else e
        cfg = [{
            "processor": "FloatValueDataSource",
            "derive": {"parameter_sweep": {"parameters": {"value": src}, "variables": {"x": [1.0, 2.0], "y": [1.0, 2.0], "t": [1.0, 2.0]},
                                           "collection": "FloatDataCollection", "mode": "by_position"}},
        }]
        info = classify(src.replace("t", "x") if src in ("2 * t", "abs(t) + 1") else src)
        built = False
        with audit(False):  # record only: building compiles the expression, which is an audited (and legitimate) event
            try:
                Pipeline(cfg)
                built = True
            except BaseException:  # noqa: BLE001
                pass
        case = {"yaml_sweep_expr": src}
        col.count(case, ["yaml", "built" if built else "refused"], True, key="yaml:" + src)
        if built and info["verdict"] in ("unsafe", "syntax"):
            col.add("accepted_unsafe", {"position": info.get("position", "syntax"), "kind": info.get("kind", "syntax"), "path": "yaml"},
                    case, observed="pipeline built", expected="configuration rejected")


def _yaml_history(col: Collector, audit: Audit) -> None:
    """Configuration path with history: the same expression text is first used by a node that declares all its names,
    then by a node that declares fewer; the second must be refused exactly as if it had come first."""
    from semantiva.pipeline import Pipeline

    from ..lib import observe

    observe.ensure_registered()

    def cfg(expr, names):
        return [{"processor": "FloatValueDataSource",
                 "derive": {"parameter_sweep": {"parameters": {"value": expr}, "variables": {n: [1.0, 2.0] for n in names}, "collection": "FloatDataCollection", "mode": "by_position"}}}]

    for expr, full, fewer in (("t * k", ["t", "k"], ["t"]), ("t + float(bool(open))", ["t", "open"], ["t"]), ("abs(t) + u * 2.0", ["t", "u"], ["u"]),
                              ("min(t, s, r)", ["t", "s", "r"], ["t", "s"])):
        for order in ("subset_only", "superset_first"):
            built = False
            with audit(False):
                try:
                    if order == "superset_first":
                        Pipeline(cfg(expr, full))
                    Pipeline(cfg(expr, fewer))
                    built = True
                except BaseException:  # noqa: BLE001
                    pass
            case = {"yaml_sweep_expr": expr, "declared": fewer, "history": order}
            col.count(case, ["yaml_history", "built" if built else "refused"], True, key="yamlhist:" + expr + ":" + order)
            if built:
                col.add("accepted_unsafe" if order == "subset_only" else "verdict_depends_on_compile_history",
                        {"position": "other", "kind": "Name:undeclared", "path": "yaml", "history": order}, case, "pipeline built", "configuration rejected")


def _yaml_from_context_names(col: Collector, audit: Audit) -> None:
    """A from_context variable declares the VARIABLE name; the context key it reads is not a name of the expression language."""
    from semantiva.pipeline import Pipeline

    for key, expr in itertools.product(["samples", "input", "vars", "len"], ["v + float(max({k}))", "max(v, key={k})", "{k}", "v if {k} else 1.0", "abs(v) + 1.0"]):
        src = expr.format(k=key)
        cfg = [{"processor": "FloatValueDataSource",
                "derive": {"parameter_sweep": {"parameters": {"value": src}, "variables": {"v": {"from_context": key}}, "collection": "FloatDataCollection"}}}]
        uses_key = "{k}" in expr
        built = False
        with audit(False):  # record only: building compiles the expression, which is an audited (and legitimate) event
            try:
                Pipeline(cfg)
                built = True
            except BaseException:  # noqa: BLE001
                pass
        case = {"yaml_sweep_expr": src, "from_context_key": key}
        col.count(case, ["yaml_from_context", "built" if built else "refused"], True, key="yamlfc:" + key + ":" + src)
        if built and uses_key:
            col.add("accepted_unsafe", {"position": "other", "kind": "Name:context_key_of_from_context_variable", "path": "yaml"},
                    case, observed="pipeline built", expected="configuration rejected")
        if not built and not uses_key:
            col.labels["info:yaml_from_context_control_refused"] += 1


def replay(case: Dict[str, Any]) -> List[Dict[str, Any]]:
    from semantiva.utils.safe_eval import ExpressionError, ExpressionEvaluator

    col = Collector()
    audit = _AUDIT[0] if _AUDIT else Audit()
    if not _AUDIT:
        _AUDIT.append(audit)
    if "yaml_sweep_expr" in case:
        _yaml_path(col, audit)
    else:
        check_source(case["expr"], "replay", ExpressionEvaluator(), ExpressionError, audit, col)
    return [{"check": b["check"], "features": b["features"], "observed": b["observed"], "expected": b["expected"],
             "case": b["case"]} for b in col.buckets.values()]


_AUDIT: List[Audit] = []


def valid(case: Any) -> bool:
    return isinstance(case, dict) and isinstance(case.get("expr"), str)


def shrink_candidates(case: Dict[str, Any]) -> Iterator[Dict[str, Any]]:
    """Replace the expression by each of its proper sub-expressions, or a child by a leaf."""
    import copy

    try:
        tree = ast.parse(case["expr"], mode="eval")
    except SyntaxError:
        return
    subs = [n for n in ast.walk(tree.body) if isinstance(n, ast.expr) and n is not tree.body]
    for n in subs:
        s = unparse(copy.deepcopy(n))
        if s:
            yield {"expr": s, "names": case.get("names", list(NAMES))}


def label_requirements(tier: str) -> Dict[str, Any]:
    return {"built": 5, "fuzz": 15000, "wide": 3000, "evaluated": 2000, "history_recompile": 10000, "verdict:unsafe": 0.2, "verdict:safe": 0.01, "d3": 1000, "esc2": 1000}
