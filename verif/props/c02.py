"""C02 — static inspection is sound: accepted configurations do not fail on flow at run time, and the
per-node facts inspection reports are true of the run."""
from __future__ import annotations

import copy
from typing import Any, Dict, List, Optional

from hypothesis import strategies as st

from ..core.campaign import run_campaign
from ..core.collect import Collector
from ..lib import gen, model as M, observe
from .c01 import nodekind

ID = "C02"
LEVEL = "exploration"
RULE = ("Hypothesis-generated pipelines (generator G biased to use-before-create, create-and-require, delete-then-require, "
        "context-only nodes between data nodes, sweep-published keys, re-written keys, unknown parameter names). Each is "
        "inspected + validated; when clean it is executed twice: with exactly the reported required keys and with a strict "
        "superset. Oracle A: no flow failure (unresolved / missing / deleted key, unknown parameter, type gate). Oracle B: "
        "per-node created/suppressed keys, parameter origins and unknown-parameter names equal the observed run. "
        "non-trivial = inspection clean and (>=1 context-resolved parameter or >=1 created/suppressed key); distinct = "
        "canonical JSON of the case")
ASSUMPTIONS = [
    "the initial payload is typed to what the first data-consuming node accepts (inspection cannot know the caller's payload)",
    "required keys are given values of the kind their consumers expect; processor errors (division by zero, wrong value kind, payload-key collision) are allowed outcomes",
    "collections are non-empty (a slicer over an empty collection never runs its element, so declared writes cannot appear)",
    "flow failures are classified by the reference model's failure kind and by the raising function in the real traceback, which must agree",
]

EXTRA_PARAM_NAMES = ["zz", "factorr", "scale"]


@st.composite
def c02_case(draw):
    case = draw(gen.case(max_nodes=7, typed_first=1.01, rare=False))
    if case["data"]["t"] in M.COLLECTIONS and not case["data"]["v"]:
        case["data"]["v"] = [draw(st.sampled_from(gen.FLOATS))]
    if draw(st.sampled_from([False] * 5 + [True])):
        # two hazard shapes on ONE key: the key is deleted (or renamed away), and a later node both requires and re-creates it
        k = draw(st.sampled_from(["a", "b", "k1", "out"]))
        first = draw(st.sampled_from([f"delete:{k}", f"rename:{k}:c"]))
        second = draw(st.sampled_from([f'template:"{{{k}}}_x":{k}', f"rename:{k}:{k}", f'template:"{{{k}}}{{factor}}":{k}']))
        i = draw(st.integers(0, len(case["nodes"])))
        j = draw(st.integers(i, len(case["nodes"])))
        case["nodes"].insert(j, {"p": second})
        case["nodes"].insert(i, {"p": first})
        case["hazard_pair"] = True
    bank = {k: draw(gen.value_for(k, bad=0)) for k in gen.ALL_KEYS + ["kind", "opts"]}
    case["bank"] = bank
    if draw(st.integers(0, 9)) == 0:
        idx = draw(st.integers(0, len(case["nodes"]) - 1))
        n = case["nodes"][idx]
        if M.describe(n)["kind"] != "ctx" and not n.get("sweep"):
            n.setdefault("params", {})[draw(st.sampled_from(EXTRA_PARAM_NAMES))] = 1.0
            case["unknown_at"] = idx
    return case


def _inspect(case):
    from semantiva.exceptions import PipelineConfigurationError
    from semantiva.inspection import build_pipeline_inspection, validate_pipeline

    observe.ensure_registered()
    cfg = M.to_config(case)
    insp = build_pipeline_inspection(cfg)
    try:
        validate_pipeline(insp)
        clean, msg = True, ""
    except PipelineConfigurationError as exc:
        clean, msg = False, str(exc)
    return insp, clean, msg


def _flow_class(case, m, r) -> Optional[Dict[str, Any]]:
    """Classify a failed run as a flow failure (dict of features) or None (allowed outcome)."""
    if r["ok"]:
        return None
    tb = r.get("tb_funcs") or []
    exc = r["exc"]
    real = None
    if type(exc).__name__ == "InvalidNodeParameterError":
        real = "UNKNOWN_PARAM"
    elif isinstance(exc, KeyError) and any(fn == "resolve_runtime_value" for _f, fn in tb[-1:]):
        real = "UNRESOLVED"
    elif isinstance(exc, TypeError) and tb and tb[-1] == ("nodes.py", "_process"):
        real = "TYPE"
    model = None if m["ok"] else m["fail"]["kind"]
    if real is None and model not in ("UNRESOLVED", "TYPE"):
        return None
    if real == "UNKNOWN_PARAM":
        return {"kind": "UNKNOWN_PARAM"}
    if real is None:
        # the reference predicts a flow failure, the real run failed earlier / for another reason: not decidable here
        return {"kind": "CLASSIFICATION_DISAGREES", "real": real, "model": model}
    # the traceback proves the class of the real failure; the reference is only used to describe it
    agrees = real == model
    idx = m["fail"]["index"] if agrees else min(len(r.get("published") or []), len(case["nodes"]) - 1)
    node = case["nodes"][idx]
    feats: Dict[str, Any] = {"kind": real, "node": nodekind(node)}
    if not agrees:
        feats["reference_predicts"] = model or "success"
    if real == "UNRESOLVED":
        import re as _re

        mm = _re.search(r"parameter '([^']+)'", str(exc))
        key = m["fail"]["detail"] if agrees else (mm.group(1) if mm else "?")
        later = any(key in M.describe(n)["created"] for n in case["nodes"][idx + 1:])
        self_c = key in M.describe(node)["created"]
        earlier_del = any(key in M.describe(n)["suppressed"] for n in case["nodes"][:idx])
        earlier_created = any(key in M.describe(n)["created"] for n in case["nodes"][:idx])
        feats["shape"] = ("deleted_earlier" if earlier_del else "created_by_self" if self_c else
                          "created_later" if later else "created_earlier_but_absent" if earlier_created else "never_created")
    else:
        data_nodes_before = [n for n in case["nodes"][:idx] if M.describe(n)["kind"] != "ctx"]
        if not data_nodes_before:
            return {"kind": "FIRST_NODE_PAYLOAD"}  # caller's payload, not a soundness issue
        feats["shape"] = "adjacent" if idx > 0 and M.describe(case["nodes"][idx - 1])["kind"] != "ctx" else "across_context_nodes"
    return feats


def check_case(case: Dict[str, Any], col: Collector) -> None:
    import os

    for p in gen.PATHS:
        if os.path.exists(p):
            os.remove(p)
    insp, clean, msg = _inspect(case)
    labs = ["clean" if clean else "rejected"]
    shape_labels(case, labs)
    # ---- unknown parameters: same names at inspection and at run time --------------------------------
    insp_invalid = {n.index - 1: sorted(i["name"] for i in n.invalid_parameters) for n in insp.nodes if n.invalid_parameters}
    if insp_invalid or "unknown_at" in case:
        labs.append("unknown_parameter")
        r0 = observe.run_real(dict(case, ctx=dict(case.get("ctx") or {})))
        rt_names = sorted(getattr(r0.get("exc"), "invalid", {}) or {}) if not r0.get("ok") and type(r0.get("exc")).__name__ == "InvalidNodeParameterError" else None
        first = min(insp_invalid) if insp_invalid else None
        if rt_names is None and not r0.get("ok") and r0.get("stage") == "construct":
            labs.append("guard:not_constructible_for_another_reason")
        elif (rt_names is None) != (first is None) or (first is not None and insp_invalid[first] != rt_names):
            col.add("unknown_parameter_names_differ", {"inspection": bool(insp_invalid), "runtime": rt_names is not None}, _strip(case),
                    observed={"inspection": insp_invalid, "runtime": rt_names}, expected="same names")
        if insp_invalid and clean:
            col.add("invalid_parameters_but_validation_passes", {}, _strip(case), observed=insp_invalid, expected="validation error")
    if not clean:
        col.count(_strip(case), labs, False)
        return
    required = sorted(insp.required_context_keys)
    # the payload consumed by CLI / GUI must list the same keys, sorted
    try:
        from semantiva.inspection import build_inspection_payload

        pl = build_inspection_payload(M.to_config(case))
        if pl.get("required_context_keys") != required:
            col.add("payload_required_keys_differ_from_inspection", {}, _strip(case), pl.get("required_context_keys"), required)
    except Exception as exc:  # noqa: BLE001
        col.add("inspection_payload_raises", {"exc": type(exc).__name__}, _strip(case), repr(exc)[:160])
    bank = case["bank"]
    ctx_exact = {k: copy.deepcopy((case.get("ctx") or {}).get(k, bank.get(k, 1.0))) for k in required}
    ctx_super = dict(copy.deepcopy(case.get("ctx") or {}), **copy.deepcopy(ctx_exact))
    nontriv = False
    for variant, ctx in (("exact", ctx_exact), ("superset", ctx_super)):
        if variant == "superset" and set(ctx) == set(ctx_exact):
            ctx = dict(ctx, **{k: bank[k] for k in ("c", "k1") if k not in ctx})
        c2 = {"nodes": case["nodes"], "ctx": ctx, "data": case["data"]}
        m = M.run(c2)
        r = observe.run_real(c2)
        if not r["constructed"] or (not r["ok"] and r.get("stage") == "construct"):
            col.exclude(1, "not_constructible")
            return
        flow = _flow_class(c2, m, r)
        labs.append(f"{variant}:" + ("ok" if r["ok"] else ("flow_failure" if flow else "processor_error")))
        if flow:
            if flow["kind"] == "FIRST_NODE_PAYLOAD":
                labs.append("guard:first_node_payload")
            elif flow["kind"] == "CLASSIFICATION_DISAGREES":
                labs.append("guard:classification_disagrees")
            else:
                col.add("flow_failure_after_clean_inspection", flow, _strip(case, ctx),
                        observed={"exc": r["exc_type"], "msg": str(r["exc"])[:160], "required": required, "variant": variant},
                        expected="no unresolved / missing / deleted key, unknown parameter or type-gate failure")
        if variant == "exact":
            nontriv = _oracle_b(case, c2, insp, m, r, col, labs)
    col.count(_strip(case), labs, nontriv)


def _strip(case, ctx=None):
    out = {"nodes": case["nodes"], "ctx": case.get("ctx") if ctx is None else ctx, "data": case["data"], "bank": case.get("bank", {})}
    if "unknown_at" in case:
        out["unknown_at"] = case["unknown_at"]
    return out


def _oracle_b(case, c2, insp, m, r, col, labs) -> bool:
    nontriv = False
    pre = dict(c2["ctx"])
    for i, rec in enumerate(r.get("published", [])):
        ni = insp.nodes[i]
        post = rec["ctx"]
        created, suppressed = set(ni.created_keys), set(ni.suppressed_keys)
        appeared, disappeared = set(post) - set(pre), set(pre) - set(post)
        nk = nodekind(case["nodes"][i])
        if created or suppressed:
            nontriv = True
        if not appeared <= created:
            col.add("key_appeared_not_reported_created", {"node": nk}, _strip(case, c2["ctx"]),
                    observed=sorted(appeared - created), expected=sorted(created))
        if not disappeared <= suppressed:
            col.add("key_disappeared_not_reported_suppressed", {"node": nk}, _strip(case, c2["ctx"]),
                    observed=sorted(disappeared - suppressed), expected=sorted(suppressed))
        if not (created - suppressed) <= set(post):
            col.add("reported_created_key_absent", {"node": nk}, _strip(case, c2["ctx"]),
                    observed=sorted((created - suppressed) - set(post)), expected=sorted(created))
        if (suppressed - created) & set(post):
            col.add("reported_suppressed_key_present", {"node": nk}, _strip(case, c2["ctx"]),
                    observed=sorted((suppressed - created) & set(post)), expected=[])
        # parameter origins
        if i < len(m["log"]) and "params" in m["log"][i]:
            for name, p in m["log"][i]["params"].items():
                if p["source"] == "config":
                    actual = "config"
                elif p["source"] == "default":
                    actual = "default"
                elif p["writer"] == "initial":
                    actual = "context:initial"
                else:
                    actual = f"context:node{p['writer'] + 1}"
                if name in ni.context_params:
                    o = ni.context_params[name]
                    reported = "context:initial" if o is None else f"context:node{o}"
                    nontriv = True
                elif name in ni.default_params:
                    reported = "default"
                elif name in ni.config_params:
                    reported = "config"
                else:
                    reported = "unreported"
                labs.append("origin:" + actual.split(":")[0] + (":node" if "node" in actual else ""))
                if reported != actual:
                    ra = reported.split("node")[0] + ("nodeN" if "node" in reported else "")
                    aa = actual.split("node")[0] + ("nodeN" if "node" in actual else "")
                    col.add("parameter_origin", {"reported": ra, "actual": aa, "node": nk}, _strip(case, c2["ctx"]),
                            observed={"param": name, "reported": reported, "node_index": i}, expected=actual)
        pre = post
    return nontriv


def shape_labels(case, labs: List[str]) -> None:
    created_at: Dict[str, int] = {}
    deleted = set()
    prev_data_kind = None
    gap = False
    for i, n in enumerate(case["nodes"]):
        d = M.describe(n)
        need = [p for p, dflt in d["params"] if p not in (n.get("params") or {})]
        for p in need:
            if p in deleted:
                labs.append("shape:delete_then_require")
            if p in d["created"]:
                labs.append("shape:create_and_require_in_one_node")
            if any(p in M.describe(x)["created"] for x in case["nodes"][i + 1:]) and p not in created_at:
                labs.append("shape:use_before_create")
            if p.endswith("_values") and p in created_at:
                labs.append("shape:sweep_published_key_consumed")
        for k in d["created"]:
            if k in created_at:
                labs.append("shape:key_written_twice")
            created_at[k] = i
            deleted.discard(k)
        deleted.update(d["suppressed"])
        if d["kind"] == "ctx":
            gap = True
        else:
            if gap and prev_data_kind is not None:
                labs.append("shape:context_nodes_between_data_nodes")
            prev_data_kind = d.get("out", d.get("inp"))
            gap = False
        if d.get("sub") == "sweep":
            labs.append("shape:sweep")


def plan(tier: str, seed: int, scale: float = 1.0) -> List[Dict[str, Any]]:
    nshards, n = (64, 200) if tier == "quick" else (320, 220)
    return [{"seed": seed * 7919 + i, "n": max(10, int(n * scale)), "timeout": 900} for i in range(nshards)]


def run_shard(spec: Dict[str, Any]) -> Dict[str, Any]:
    col = Collector()
    run_campaign(c02_case(), lambda c: check_case(c, col), spec["n"], spec["seed"])
    return col.result()


def replay(case: Dict[str, Any]) -> List[Dict[str, Any]]:
    col = Collector()
    case = dict(case)
    case.setdefault("bank", {})
    for k in gen.ALL_KEYS + ["kind", "opts"]:
        case["bank"].setdefault(k, ["s"] if k in ("seq", "t_values") else ("out_a.txt" if k == "path" else 1.0))
    check_case(case, col)
    return [{"check": b["check"], "features": b["features"], "observed": b["observed"], "expected": b["expected"],
             "case": b["case"]} for b in col.buckets.values()]


def valid(case: Any) -> bool:
    from .c01 import valid as v1

    return v1(case)


def label_requirements(tier: str) -> Dict[str, Any]:
    return {"clean": 0.25, "rejected": 0.10, "exact:ok": 0.10, "shape:use_before_create": 0.02,
            "shape:create_and_require_in_one_node": 0.01, "shape:delete_then_require": 0.02,
            "shape:context_nodes_between_data_nodes": 0.10, "shape:key_written_twice": 0.05, "shape:sweep": 0.05,
            "unknown_parameter": 0.03, "origin:context:node": 0.05, "origin:default": 0.03}
