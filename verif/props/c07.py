"""C07 — what a Semantic Execution Record says about its node is true."""
from __future__ import annotations

import copy
import os
import re
import shutil
import tempfile
import time
from datetime import datetime, timezone
from typing import Any, Dict, List, Optional

from hypothesis import strategies as st

from ..core.campaign import run_campaign
from ..core.collect import Collector
from ..lib import gen, model as M, observe, tracelib
from .c01 import labels_of, nodekind

ID = "C07"
LEVEL = "exploration"
RULE = ("Hypothesis-generated pipelines and contexts (every parameter placement incl. defaults overridden by context) x detail "
        "levels, executed traced twice in child processes whose host TZ is one of {UTC, Asia/Tokyo (+09:00), "
        "America/Los_Angeles (-08:00/-07:00), Asia/Kathmandu (+05:45)}. Every SER is compared with the reference interpreter's "
        "per-node log and the recording transport. non-trivial = >=1 parameter from context or default and >=1 context change; "
        "distinct = canonical JSON of (case, detail)")
ASSUMPTIONS = [
    "context deltas are judged for nodes that completed (the post-state of a failing node is not observable without hooks)",
    "a value that compares equal but is not bit-identical (0.0 vs -0.0) may be reported as updated or not",
    "input/output type checks are judged for data nodes only (context processors declare a placeholder input type); payload None is not generated",
    "timestamps must lie in the harness' own [time.time() before, after] bracket +- 2 s when read as UTC",
    "the module prefix of processor.ref for type()-generated classes is not judged, only that ref = module.qualname of the class that ran and its class name is the documented one",
]

TZS = ["UTC", "Asia/Tokyo", "America/Los_Angeles", "Asia/Kathmandu"]
RFC3339 = re.compile(r"^\d{4}-\d{2}-\d{2}T\d{2}:\d{2}:\d{2}(\.\d+)?Z$")


@st.composite
def c07_case(draw):
    case = draw(gen.case(max_nodes=6, rare=False, rich_sweeps="numpy"))
    if case["data"]["t"] == "None":
        case["data"] = dict(M.NODATA)
    case["detail"] = draw(st.sampled_from(["hash", "repr", "context", "all", "hash,repr", "hash,context", "repr,context"]))
    if draw(st.sampled_from([False] * 5 + [True])):
        # a context value far longer than any display limit is rewritten with a change at its very end
        m = M.run(case)
        spots = [e["index"] for e in m["log"] if M.kind_of(e["in"]) == "Float"] + ([len(case["nodes"])] if m["ok"] and M.kind_of(m["data"]) == "Float" else [])
        if spots:
            case["nodes"].insert(draw(st.sampled_from(spots)), {"p": "VLongTailOp"})
            if draw(st.booleans()):
                case["ctx"]["long_key"] = [1.0] * 80 + [draw(st.sampled_from(gen.FLOATS))]
    return case


def expected_class_name(node: Dict[str, Any]) -> Optional[str]:
    d = M.describe(node)
    san = lambda k: k.replace(".", "_")  # noqa: E731
    if d.get("sub") == "rename":
        return f"Rename_{san(d['src'])}_to_{san(d['dst'])}"
    if d.get("sub") == "delete":
        return f"Delete_{san(d['key'])}"
    if d.get("sub") == "template":
        return f"Template_{san(d['out'])}"
    if d.get("sub") == "slice":
        return f"SlicerFor{d['base']}"
    if d.get("sub") == "sweep":
        return f"{node['p']}ParametricSweep"
    return node["p"]


def parse_ts(s: Any) -> Optional[float]:
    if not isinstance(s, str) or not RFC3339.match(s):
        return None
    try:
        return datetime.strptime(s[:-1].split(".")[0], "%Y-%m-%dT%H:%M:%S").replace(tzinfo=timezone.utc).timestamp() + \
            (float("0." + s[:-1].split(".")[1]) if "." in s else 0.0)
    except ValueError:
        return None


def _param_equal(recorded: Any, actual: Any, approx: bool) -> bool:
    """SER parameter values are JSON-safe: a data object is recorded as its (truncated) repr."""
    def has_data(v):
        if isinstance(v, dict):
            return (set(v) <= {"t", "v"} and "t" in v) or any(has_data(x) for x in v.values())
        return isinstance(v, list) and any(has_data(x) for x in v)

    if has_data(actual):
        if isinstance(actual, dict) and set(actual) <= {"t", "v"}:
            want = M.render(actual)
            if actual["t"] == "NoDataType":
                want = "NoDataType(None)"  # repr(), as recorded; str() (used by templates) prints "NoDataType"
            return isinstance(recorded, str) and (recorded == want or (recorded.endswith("…") and want.startswith(recorded[:-1])) or
                                                  (approx and observe._str_close(recorded, want)))
        return isinstance(recorded, str)  # a container holding data objects is not JSON serialisable: recorded as some repr
    if approx and isinstance(recorded, str) and not isinstance(actual, str):
        # numpy scalars (np.float64 / np.bool_) inside the value are not JSON serialisable: the value is recorded as its repr
        norm = recorded.replace("np.True_", "True").replace("np.False_", "False")
        if norm.endswith("…"):  # safe_repr truncates at 200 characters: compare the non-numeric skeleton of the common prefix
            a = observe._NUM.sub("#", observe._np_norm(norm[:-1]))[:80]
            b = observe._NUM.sub("#", observe._np_norm(repr(actual)))[:80]
            return a == b
        return observe._str_close(norm, repr(actual))
    return observe.equal(observe.norm_value(recorded), actual, approx)


def _changed(a: Any, b: Any) -> Optional[bool]:
    """True changed / False unchanged / None either verdict acceptable (equal but not bit-identical)."""
    if observe.equal(a, b):
        return False if repr(a) == repr(b) else None
    return True


def check_case(case: Dict[str, Any], col: Collector, workroot: str = ".") -> None:
    detail = case.get("detail", "hash")
    run_case = {k: copy.deepcopy(case[k]) for k in ("nodes", "ctx", "data")}
    for p in gen.PATHS:
        if os.path.exists(p):
            os.remove(p)
    m = M.run(run_case)
    ref = observe.run_real(run_case)
    if not ref["constructed"] or (not ref["ok"] and any(fn == "_instantiate_nodes" for _f, fn in ref.get("tb_funcs") or [])):
        col.exclude(1, "not_constructible")
        return
    tdir = tempfile.mkdtemp(prefix="c07-", dir=workroot)
    try:
        t0 = time.time()
        r1 = tracelib.run_traced(run_case, detail, "file", os.path.join(tdir, "a"))
        t1 = time.time()
        r2 = tracelib.run_traced(run_case, detail, "file", os.path.join(tdir, "b"))
        _judge(case, run_case, detail, m, ref, r1, r2, t0, t1, col)
    finally:
        shutil.rmtree(tdir, ignore_errors=True)
        for p in gen.PATHS:
            if os.path.exists(p):
                os.remove(p)


def _judge(case, run_case, detail, m, ref, r1, r2, t0, t1, col) -> None:
    rep = {k: case.get(k) for k in ("nodes", "ctx", "data", "detail")}
    tz = os.environ.get("TZ", "unset")
    labs = labels_of(run_case, m) + ["detail:" + detail, "tz:" + tz]
    if not r1["traces"]:
        col.add("no_trace_file", {}, rep)
        return
    recs = r1["traces"][0]["records"]
    sers = [x for x in recs if x.get("record_type") == "ser"]
    ctx_changes = any(e.get("post") is not None and not observe.equal(e["pre"], e["post"]) for e in m["log"])
    nontriv = bool({"param_from_context", "param_from_default"} & set(labs)) and ctx_changes
    col.count(rep, labs, nontriv, key=[rep, tz])
    nodes = r1["pipeline"].orchestrator.last_nodes
    hashing = any(f in detail for f in ("hash", "all"))

    def bad(check, feats=None, observed=None, expected=None):
        col.add(check, dict(feats or {}), rep, observed, expected)

    pre = observe.norm_ctx(run_case["ctx"])
    for i, s in enumerate(sers):
        node = run_case["nodes"][i] if i < len(run_case["nodes"]) else None
        if node is None:
            break
        nk = nodekind(node)
        desc = M.describe(node)
        completed = i < len(ref["published"])
        post = ref["published"][i]["ctx"] if completed else None
        # ---- context delta ------------------------------------------------------------------------
        if completed:
            cd = s.get("context_delta", {})
            created = sorted(k for k in post if k not in pre)
            must_upd = sorted(k for k in post if k in pre and _changed(pre[k], post[k]) is True)
            may_upd = sorted(k for k in post if k in pre and _changed(pre[k], post[k]) is None)
            if sorted(cd.get("created_keys", [])) != created:
                bad("created_keys", {"node": nk}, cd.get("created_keys"), created)
            got_upd = sorted(cd.get("updated_keys", []))
            if not (set(must_upd) <= set(got_upd) <= set(must_upd) | set(may_upd)):
                bad("updated_keys", {"node": nk}, got_upd, must_upd)
        # ---- processor.ref ------------------------------------------------------------------------
        proc = s.get("processor", {})
        if i < len(nodes):
            cls = type(nodes[i].processor)
            want_ref = f"{cls.__module__}.{cls.__qualname__}"
            if proc.get("ref") != want_ref:
                bad("processor_ref_not_class_that_ran", {"node": nk}, proc.get("ref"), want_ref)
            if cls.__name__ != expected_class_name(node):
                bad("processor_class_name", {"node": nk}, cls.__name__, expected_class_name(node))
        # ---- parameters and their sources ---------------------------------------------------------
        entry = m["log"][i] if i < len(m["log"]) else None
        if entry and "params" in entry:
            params, sources = proc.get("parameters", {}), proc.get("parameter_sources", {})
            for name, p in entry["params"].items():
                want_src = {"config": "node", "context": "context", "default": "default"}[p["source"]]
                dflt = dict(desc["params"]).get(name, M.NODEF)
                shape = want_src + ("+has_default" if dflt != M.NODEF and want_src != "default" else "")
                if name not in params:
                    bad("parameter_missing", {"source": shape, "node": nk.split(":")[0]}, sorted(params), name)
                elif not _param_equal(params[name], p["value"], m["approx"]):
                    bad("parameter_value", {"source": shape, "node": nk.split(":")[0]}, params[name], p["value"])
                if sources.get(name) != want_src and name in params:
                    bad("parameter_source", {"reported": str(sources.get(name)), "actual": shape, "node": nk.split(":")[0]},
                        sources.get(name), want_src)
        # ---- built-in checks ------------------------------------------------------------------------
        a = s.get("assertions", {})
        prec = {c.get("code"): c for c in a.get("preconditions", [])}
        postc = {c.get("code"): c for c in a.get("postconditions", [])}
        required = [n for n, d in desc["params"] if n not in (node.get("params") or {}) and d == M.NODEF]
        want = "PASS" if all(k in pre for k in required) else "FAIL"
        got = prec.get("required_keys_present", {}).get("result")
        if got != want:
            bad("check_required_keys_present", {"node": nk, "want": want}, prec.get("required_keys_present"), {"required": required, "pre": sorted(pre)})
        if desc["kind"] != "ctx" and entry is not None:
            have = M.kind_of(entry["in"])
            want = "PASS" if (have == desc["inp"] or (desc["inp"] == "Any" and have != "None")) else "FAIL"
            got = prec.get("input_type_ok", {}).get("result")
            if got != want:
                bad("check_input_type_ok", {"node": nk, "want": want}, prec.get("input_type_ok"), {"have": have, "declared": desc["inp"]})
            if completed and "out" in entry:
                got = postc.get("output_type_ok", {}).get("result")
                if got != "PASS":
                    bad("check_output_type_ok", {"node": nk, "want": "PASS"}, postc.get("output_type_ok"))
        if completed:
            got = postc.get("context_writes_realized", {}).get("result")
            if got != "PASS":
                bad("check_context_writes_realized", {"node": nk}, postc.get("context_writes_realized"))
        # ---- timing ---------------------------------------------------------------------------------
        tm = s.get("timing", {})
        for k in ("wall_ms", "cpu_ms"):
            if not isinstance(tm.get(k), int) or tm[k] < 0:
                bad("negative_duration", {"field": k}, tm.get(k))
        if completed:
            pre = post
    # ---- digests ----------------------------------------------------------------------------------------
    if hashing:
        for a, b in zip(sers, sers[1:]):
            sa, sb = a.get("summaries") or {}, b.get("summaries") or {}
            if (sa.get("output_data") or {}).get("sha256") != (sb.get("input_data") or {}).get("sha256"):
                bad("digest_chain_data", {}, (sa.get("output_data") or {}).get("sha256"), (sb.get("input_data") or {}).get("sha256"))
                break
            if (sa.get("post_context") or {}).get("sha256") != (sb.get("pre_context") or {}).get("sha256"):
                bad("digest_chain_context", {})
                break
        for i, s in enumerate(sers):
            if i >= len(ref["published"]) or i >= len(m["log"]) or "out" not in m["log"][i]:
                continue
            e = m["log"][i]
            sm = s.get("summaries") or {}
            same_data = repr(e["in"]) == repr(e["out"])
            if same_data and (sm.get("input_data") or {}).get("sha256") != (sm.get("output_data") or {}).get("sha256"):
                bad("equal_data_different_digest", {"node": nodekind(run_case["nodes"][i])})
            # a digest is a function of content: content that differs (not even ==) must not keep the input's digest
            if not same_data and not observe.equal(e["in"], e["out"], True) and (sm.get("input_data") or {}).get("sha256") is not None and \
                    (sm.get("input_data") or {}).get("sha256") == (sm.get("output_data") or {}).get("sha256"):
                bad("different_data_same_digest", {"node": nodekind(run_case["nodes"][i])}, sm.get("output_data"), {"in": e["in"], "out": e["out"]})
            if repr(e["pre"]) == repr(e["post"]) and sorted(e["pre"]) == sorted(e["post"]) and \
                    (sm.get("pre_context") or {}).get("sha256") != (sm.get("post_context") or {}).get("sha256"):
                bad("equal_context_different_digest", {"node": nodekind(run_case["nodes"][i])})
        if r2["traces"]:
            s2 = [x for x in r2["traces"][0]["records"] if x.get("record_type") == "ser"]
            for a, b in zip(sers, s2):
                if (a.get("summaries") or {}) != (b.get("summaries") or {}):
                    bad("digests_differ_between_identical_runs", {"node": nodekind(run_case["nodes"][min(sers.index(a), len(run_case['nodes']) - 1)])},
                        a.get("summaries"), b.get("summaries"))
                    break
    # ---- timestamps -----------------------------------------------------------------------------------------
    stamps: List[Any] = []
    for x in recs:
        if x.get("record_type") == "ser":
            stamps += [("started_at", x.get("timing", {}).get("started_at")), ("finished_at", x.get("timing", {}).get("finished_at"))]
        else:
            stamps.append((x.get("record_type"), x.get("timestamp")))
    last = None
    for field, sval in stamps:
        t = parse_ts(sval)
        if t is None:
            bad("timestamp_not_rfc3339_utc", {"field": field.split("_")[0]}, sval)
            break
        if not (t0 - 2.0 <= t <= t1 + 2.0):
            off = round((t - t0) / 900.0) * 900
            bad("timestamp_not_true_utc_instant", {"offset_quarter_hours": int(off // 900) if abs(off) < 90000 else "large"}, sval,
                {"bracket_utc": [datetime.fromtimestamp(t0, timezone.utc).isoformat(), datetime.fromtimestamp(t1, timezone.utc).isoformat()], "TZ": tz})
            break
        if last is not None and t < last - 1e-9:
            bad("timestamps_decrease", {"field": field}, sval)
            break
        last = t


def plan(tier: str, seed: int, scale: float = 1.0) -> List[Dict[str, Any]]:
    per_tz, n = (12, 150) if tier == "quick" else (48, 220)
    specs = []
    for ti, tz in enumerate(TZS):
        for i in range(per_tz):
            specs.append({"seed": seed * 3001 + ti * 1000 + i, "n": max(10, int(n * scale)), "env": {"TZ": tz}, "timeout": 900})
    return specs


def run_shard(spec: Dict[str, Any]) -> Dict[str, Any]:
    time.tzset()
    col = Collector()
    run_campaign(c07_case(), lambda c: check_case(c, col, spec.get("workdir", ".")), spec["n"], spec["seed"])
    return col.result()


def replay(case: Dict[str, Any]) -> List[Dict[str, Any]]:
    out = []
    for tz in ([case["tz"]] if case.get("tz") else ["Asia/Tokyo", "UTC"]):
        os.environ["TZ"] = tz
        time.tzset()
        col = Collector()
        check_case(case, col)
        out += [{"check": b["check"], "features": b["features"], "observed": b["observed"], "expected": b["expected"],
                 "case": b["case"]} for b in col.buckets.values()]
    seen, uniq = set(), []
    for d in out:
        k = d["check"] + repr(sorted(d["features"].items()))
        if k not in seen:
            seen.add(k)
            uniq.append(d)
    return uniq


def valid(case: Any) -> bool:
    from .c01 import valid as v1

    try:
        return v1({k: case[k] for k in ("nodes", "ctx", "data")}) and case["data"]["t"] != "None" and isinstance(case.get("detail", "hash"), str) \
            and all(f in ("hash", "repr", "context", "all") for f in case.get("detail", "hash").split(","))
    except Exception:
        return False


def label_requirements(tier: str) -> Dict[str, Any]:
    req = {"default_overridden_by_context": 0.04, "param_from_default": 0.03, "param_from_context": 0.2, "succeeds": 0.2}
    for tz in TZS:
        req["tz:" + tz] = 0.2
    return req
