"""Reference interpreter M for the documented dual-channel node semantics (DESIGN 3.3).

Written from docs/source/{concepts,pipeline,context_processors,data_probes,data_operations,
data_io,collection_modifiers}.rst. It imports nothing from semantiva. State = (data, ctx dict).

Data values are plain JSON:  {"t": "None"} | {"t": "NoDataType"} | {"t": "FloatDataType", "v": x}
| {"t": "<CollectionClass>", "v": [x, ...]}.

A *case* is {"nodes": [node, ...], "ctx": {...}, "data": <data value>} and a *node* is
{"p": "<processor string>", "params": {...}, "context_key": "...", "sweep": {...}} (last two optional).
"""
from __future__ import annotations

import copy
import itertools
import math
import re
import string
from typing import Any, Dict, List, Optional, Tuple

NODEF = "__NODEF__"

NONE = {"t": "None"}
NODATA = {"t": "NoDataType"}


def F(x: float) -> Dict[str, Any]:
    return {"t": "FloatDataType", "v": x}


def C(xs: List[float], cls: str = "FloatDataCollection") -> Dict[str, Any]:
    return {"t": cls, "v": list(xs)}


COLLECTIONS = ("FloatDataCollection", "VFloatCollection2")


class MFail(Exception):
    """The documented semantics prescribe a failure at this node."""

    def __init__(self, kind: str, exc: str, detail: str = ""):
        super().__init__(f"{kind}:{exc}:{detail}")
        self.kind = kind      # UNRESOLVED | TYPE | UNDECLARED | PROCESSOR
        self.exc = exc        # expected exception type name
        self.detail = detail


def _must_float(x: Any) -> float:
    if not isinstance(x, float):
        raise TypeError("Data must be a float")
    return x


# ---- leaf semantics (restated, not imported) -----------------------------------------------------
def _mul(d, factor):
    return _must_float(d * factor)


def _add(d, addend):
    return _must_float(d + addend)


def _div(d, divisor):
    if divisor == 0:
        raise ValueError("Division by zero is not allowed")
    return _must_float(d / divisor)


def _basic_probe(d):
    return {"value": d, "type": type(d).__name__, "is_positive": d > 0, "abs_value": abs(d)}


# name -> spec
#   kind: source | payload_source | operation | probe | sink
#   params: [(name, default)]   in: Float|Coll|None(no data)   out: Float|Coll
LIB: Dict[str, Dict[str, Any]] = {
    "FloatValueDataSource": dict(kind="source", params=[("value", NODEF)], out="Float",
                                 fn=lambda value: _assert_float(value)),
    "FloatValueDataSourceWithDefault": dict(kind="source", params=[("value", 42.0)], out="Float",
                                            fn=lambda value: _assert_float(value)),
    "FloatDataSource": dict(kind="source", params=[], out="Float", fn=lambda: 123.0),
    "FloatPayloadSource": dict(kind="payload_source", params=[], out="Float", fn=lambda: (456.0, {}), keys=[]),
    "VPayloadSourceWithKeys": dict(kind="payload_source", params=[("seed", 1.5)], out="Float",
                                   fn=lambda seed: (_must_float(seed * 2.0), {"ps_a": seed, "ps_b": "txt"}),
                                   keys=["ps_a", "ps_b"]),
    "FloatMultiplyOperation": dict(kind="operation", params=[("factor", NODEF)], inp="Float", out="Float",
                                   fn=lambda d, factor: _mul(d, factor)),
    "FloatMultiplyOperationWithDefault": dict(kind="operation", params=[("factor", 2.0)], inp="Float", out="Float",
                                              fn=lambda d, factor: _mul(d, factor)),
    "FloatAddOperation": dict(kind="operation", params=[("addend", NODEF)], inp="Float", out="Float",
                              fn=lambda d, addend: _add(d, addend)),
    "FloatSquareOperation": dict(kind="operation", params=[], inp="Float", out="Float",
                                 fn=lambda d: _must_float(d ** 2)),
    "FloatSqrtOperation": dict(kind="operation", params=[], inp="Float", out="Float",
                               fn=lambda d: _must_float(math.sqrt(abs(d)))),
    "FloatDivideOperation": dict(kind="operation", params=[("divisor", NODEF)], inp="Float", out="Float",
                                 fn=lambda d, divisor: _div(d, divisor)),
    "FloatCollectionSumOperation": dict(kind="operation", params=[], inp="Coll", out="Float",
                                        fn=lambda xs: _must_float(sum(xs))),
    "VInPlaceScaleOp": dict(kind="operation", params=[("k", 1.5)], inp="Float", out="Float", fn=lambda d, k: _mul(d, k)),
    "VNoneDefaultProbe": dict(kind="probe", params=[("tag", None)], inp="Float", fn=lambda d, tag: {"tag": tag, "d": d}),
    "VDefaultsProbe": dict(kind="probe", params=[("n", 2), ("label", "x"), ("flag", True)], inp="Float",
                           fn=lambda d, n, label, flag: {"n": n, "label": label, "flag": flag, "d": d}),
    "VCtxWriteOp": dict(kind="operation", params=[("w", NODEF)], inp="Float", out="Float", writes=["w_key"],
                        fn=None),
    "VLongTailOp": dict(kind="operation", params=[], inp="Float", out="Float", writes=["long_key"], fn=None),
    "VUndeclaredWriteOp": dict(kind="operation", params=[], inp="Float", out="Float", fn=None),
    "VRaiseOp": dict(kind="operation", params=[("kind", "value")], inp="Float", out="Float", fn=None),
    "VInitFaultOp": dict(kind="operation", params=[], inp="Float", out="Float", fn=lambda d: d),
    "VArrayDefaultOp": dict(kind="operation", params=[("gain", 1.0)], inp="Float", out="Float", fn=lambda d, gain: _must_float(d * gain * 3.0)),
    "VArrayDefaultProbe": dict(kind="probe", params=[], inp="Float", fn=lambda d: d * 2.0),
    # referenced as module:Class; the module also defines another FloatSquareOperation which must stay unreachable
    "verif.lib.shadow:VShadowOnly": dict(kind="operation", params=[], inp="Float", out="Float", fn=lambda d: d),
    "VShadowLate": dict(kind="operation", params=[], inp="Float", out="Float", fn=lambda d: d),
    "verif.lib.shadow:VShadowLate": dict(kind="operation", params=[], inp="Float", out="Float", fn=lambda d: d),
    # not a component at all: a processor reference nothing resolves (configuration error at node construction)
    "NoSuchProcessorXYZ": dict(kind="operation", params=[], inp="Float", out="Float", fn=lambda d: d),
    "VNestedParamOp": dict(kind="operation", params=[("opts", NODEF)], inp="Float", out="Float",
                           fn=lambda d, opts: _must_float(d * float(
                               (opts.get("k", 1.0) if isinstance(opts, dict) else 1.0)
                               if isinstance((opts.get("k", 1.0) if isinstance(opts, dict) else 1.0), (int, float)) else 1.0))),
    "VMarkerOp": dict(kind="operation", params=[("marker", NODEF)], inp="Float", out="Float", fn=lambda d, marker: d),
    "FloatBasicProbe": dict(kind="probe", params=[], inp="Float", fn=lambda d: _basic_probe(d)),
    "FloatCollectValueProbe": dict(kind="probe", params=[], inp="Float", fn=lambda d: d),
    "VEchoProbe": dict(kind="probe", params=[("p", NODEF), ("q", 5.0)], inp="Float",
                       fn=lambda d, p, q: {"p": p, "q": q, "d": d}),
    # built-in utility components (semantiva.data_processors.data_dump / copy_data_probe): accept any data type
    "DataDump": dict(kind="operation", params=[], inp="Any", out="NoData", fn=None),
    "CopyDataProbe": dict(kind="probe", params=[], inp="Any", fn=None),
    "FloatDataSink": dict(kind="sink", params=[], inp="Float"),
    "FloatPayloadSink": dict(kind="sink", params=[], inp="Float"),
    "FloatMockDataSink": dict(kind="sink", params=[("path", NODEF)], inp="Float"),
    "FloatTxtFileSaver": dict(kind="sink", params=[("path", NODEF)], inp="Float", writes_file=True),
    "VMarkerSource": dict(kind="source", params=[("marker", NODEF), ("value", 1.0)], out="Float",
                          fn=lambda marker, value: value),
}

EXC_NAMES = {"value": "ValueError", "runtime": "RuntimeError", "keyboard": "KeyboardInterrupt", "abort": "VVerifAbort",
             "value_empty": "ValueError", "keyboard_empty": "KeyboardInterrupt", "assert_empty": "AssertionError",
             "key_empty": "KeyError", "key_tuple": "KeyError", "os_empty": "OSError", "args_two": "RuntimeError", "system_exit": "SystemExit"}


def _assert_float(value):
    if not isinstance(value, float):
        raise AssertionError("Value must be a float")
    return value


RE_RENAME = re.compile(r"^rename:(?P<src>.+?):(?P<dst>.+)$")
RE_DELETE = re.compile(r"^delete:(?P<key>.+)$")
RE_TEMPLATE = re.compile(r"^template:(?P<q>\"|')(?P<template>.*?)(?P=q):(?P<out>[A-Za-z_][A-Za-z0-9_.]*)$")
RE_SLICE = re.compile(r"^slice:(?P<proc>[A-Za-z_][A-Za-z0-9_]*):(?P<collection>[A-Za-z_][A-Za-z0-9_]*)$")


def placeholders(template: str) -> List[str]:
    out: List[str] = []
    for _lit, field, _spec, _conv in string.Formatter().parse(template):
        if field and field not in out:
            out.append(field)
    return out


def describe(node: Dict[str, Any]) -> Dict[str, Any]:
    """Static description of a node: kind, parameter specs, in/out data kind, created / suppressed keys."""
    p = node["p"]
    m = RE_RENAME.match(p)
    if m:
        return dict(kind="ctx", sub="rename", src=m["src"], dst=m["dst"], params=[(m["src"], NODEF)],
                    created=[m["dst"]], suppressed=[m["src"]])
    m = RE_DELETE.match(p)
    if m:
        return dict(kind="ctx", sub="delete", key=m["key"], params=[(m["key"], NODEF)], created=[], suppressed=[m["key"]])
    m = RE_TEMPLATE.match(p)
    if m:
        ph = placeholders(m["template"])
        return dict(kind="ctx", sub="template", template=m["template"], out=m["out"], params=[(k, NODEF) for k in ph],
                    created=[m["out"]], suppressed=[])
    m = RE_SLICE.match(p)
    if m:
        base = LIB[m["proc"]]
        d = dict(base)
        d.update(sub="slice", base=m["proc"], collection=m["collection"], inp="Coll",
                 created=list(base.get("writes", [])), suppressed=[])
        if base["kind"] == "operation":
            d["out"] = "Coll"
        else:
            d["created"] = [node.get("context_key")]
        return d
    base = LIB[p]
    d = dict(base)
    d["created"] = list(base.get("writes", []))
    d["suppressed"] = []
    if base["kind"] == "probe":
        d["created"] = [node.get("context_key")]
    if base["kind"] == "payload_source":
        d["created"] = list(base["keys"])
    if base["kind"] in ("source", "payload_source"):
        d["inp"] = "NoData"
    sw = node.get("sweep")
    if sw:
        bound = set(sw.get("params", {}))
        ctx_keys = [v["key"] for v in sw["vars"].values() if v["kind"] == "ctx"]
        ext = [(n, dflt) for n, dflt in base["params"] if n not in bound]
        req = [(n, dflt) for n, dflt in ext if dflt == NODEF]
        opt = [(n, dflt) for n, dflt in ext if dflt != NODEF]
        d["params"] = [(k, NODEF) for k in ctx_keys] + req + opt
        d["sub"] = "sweep"
        values_keys = [f"{v}_values" for v in sw["vars"]]
        if base["kind"] == "probe":
            d["created"] = [node.get("context_key")] + values_keys
        else:
            d["created"] = values_keys + list(base.get("writes", []))
            d["out"] = "Coll"
    return d


def kind_of(data: Dict[str, Any]) -> str:
    t = data["t"]
    if t == "FloatDataType":
        return "Float"
    if t in COLLECTIONS:
        return "Coll"
    if t == "NoDataType":
        return "NoData"
    return "None"


def resolve(desc: Dict[str, Any], node: Dict[str, Any], ctx: Dict[str, Any], writers: Dict[str, Any]):
    """config > context > default, else UNRESOLVED.  Returns {name: (value, source, writer)}."""
    out: Dict[str, Tuple[Any, str, Any]] = {}
    cfg = node.get("params") or {}
    for name, default in desc["params"]:
        if name in cfg:
            out[name] = (cfg[name], "config", None)
        elif name in ctx:
            out[name] = (ctx[name], "context", writers.get(name, "initial"))
        elif default != NODEF:
            out[name] = (default, "default", None)
        else:
            raise MFail("UNRESOLVED", "KeyError", name)
    return out


def _leaf(fn, *args):
    try:
        return fn(*args)
    except MFail:
        raise
    except Exception as exc:  # noqa: BLE001 - the leaf's exception type is the prescribed one
        raise MFail("PROCESSOR", type(exc).__name__, str(exc))


def real_values(spec: Dict[str, Any]) -> List[Any]:
    """The sequence as handed to semantiva: numpy scalars when the case says so (only possible through the Python API)."""
    if spec.get("np"):
        import numpy as _np

        return [getattr(_np, spec["np"])(x) for x in spec["values"]]
    return list(spec["values"])


# ---- sweeps (C03 reference expander) --------------------------------------------------------------
def materialise(var: Dict[str, Any], resolved: Dict[str, Any]) -> List[Any]:
    k = var["kind"]
    if k == "values":
        if var.get("np") == "int64":
            return [int(x) for x in var["values"]]  # numpy integers behave as Python ints
        return list(var["values"])
    if k == "ctx":
        v = resolved[var["key"]][0]
        if isinstance(v, (str, bytes)) or not isinstance(v, (list, tuple)):
            raise MFail("PROCESSOR", "TypeError", "from_context not a sequence")
        if not v:
            raise MFail("PROCESSOR", "ValueError", "from_context empty")
        return list(v)
    lo, hi, n = float(var["lo"]), float(var["hi"]), int(var["steps"])
    endpoint = var.get("endpoint", True)
    if var.get("scale", "linear") == "linear":
        div = (n - 1) if endpoint else n
        if div == 0:
            return [lo]
        return [lo + i * (hi - lo) / div for i in range(n)]
    div = (n - 1) if endpoint else n
    if div == 0:
        return [lo]
    return [lo * (hi / lo) ** (i / div) for i in range(n)]


def sweep_steps(seqs: Dict[str, List[Any]], mode: str, broadcast: bool) -> List[Dict[str, Any]]:
    names = list(seqs)
    if mode == "by_position":
        lens = [len(seqs[n]) for n in names]
        if broadcast:
            m = max(lens)
            return [{n: seqs[n][i % len(seqs[n])] for n in names} for i in range(m)]
        if len(set(lens)) != 1:
            raise MFail("PROCESSOR", "ValueError", "unequal lengths")
        return [{n: seqs[n][i] for n in names} for i in range(lens[0])]
    names = sorted(names)
    return [dict(zip(names, combo)) for combo in itertools.product(*[seqs[n] for n in names])]


SAFE_ENV = {"abs": abs, "min": min, "max": max, "round": round, "float": float, "int": int, "str": str, "bool": bool}


def eval_expr(expr: str, env: Dict[str, Any]) -> Any:
    try:
        return eval(expr, {"__builtins__": {}, **SAFE_ENV}, dict(env))  # vetted grammar only (generator-produced)
    except Exception as exc:  # noqa: BLE001
        raise MFail("PROCESSOR", type(exc).__name__, "expression")


# ---- the interpreter ------------------------------------------------------------------------------
def run(case: Dict[str, Any]) -> Dict[str, Any]:
    """Return {"ok": bool, "data", "ctx", "fail": {kind, exc, index}, "log": [per-node entries], "approx": bool}."""
    data = copy.deepcopy(case.get("data") or NONE)
    ctx: Dict[str, Any] = copy.deepcopy(case.get("ctx") or {})
    writers: Dict[str, Any] = {}
    log: List[Dict[str, Any]] = []
    approx = False
    files: Dict[str, str] = {}
    for idx, node in enumerate(case["nodes"]):
        desc = describe(node)
        pre = copy.deepcopy(ctx)
        entry: Dict[str, Any] = {"index": idx, "pre": pre, "p": node["p"], "kind": desc["kind"], "in": copy.deepcopy(data)}
        try:
            # type gate (data nodes only); a source treats None as "no data"
            if desc["kind"] != "ctx":
                want = desc["inp"]
                have = kind_of(data)
                if want == "NoData" and have == "None":
                    data = dict(NODATA)
                    have = "NoData"
                if want != have and not (want == "Any" and have != "None"):
                    raise MFail("TYPE", "TypeError", f"{want} != {have}")
            res = resolve(desc, node, ctx, writers)
            entry["params"] = {k: {"value": v[0], "source": v[1], "writer": v[2]} for k, v in res.items()}
            vals = {k: v[0] for k, v in res.items()}
            data, is_approx = _apply(desc, node, data, ctx, vals, files)
            approx = approx or is_approx
        except MFail as f:
            entry["fail"] = {"kind": f.kind, "exc": f.exc, "detail": f.detail}
            log.append(entry)
            return {"ok": False, "fail": {"kind": f.kind, "exc": f.exc, "index": idx, "detail": f.detail},
                    "log": log, "approx": approx, "files": files}
        for k in ctx:
            if k not in pre or not _same(pre[k], ctx[k]) or k in desc["created"]:
                writers[k] = idx
        for k in list(writers):
            if k not in ctx:
                del writers[k]
        entry["post"] = copy.deepcopy(ctx)
        entry["out"] = copy.deepcopy(data)
        log.append(entry)
    return {"ok": True, "data": data, "ctx": ctx, "log": log, "approx": approx, "files": files}


def _same(a: Any, b: Any) -> bool:
    return type(a) is type(b) and a == b


def render(v: Any) -> str:
    """str() of a context value as the framework renders it (data objects print as Class(value))."""
    if isinstance(v, dict) and set(v) <= {"t", "v"} and "t" in v:
        if v["t"] in ("NoDataType", "None"):
            return "NoDataType" if v["t"] == "NoDataType" else "None"
        if v["t"] == "FloatDataType":
            return f"FloatDataType({v['v']})"
        return f"{v['t']}([" + ", ".join(f"FloatDataType({x})" for x in v["v"]) + "])"
    if isinstance(v, (dict, list, tuple)) and _holds_data(v):
        # containers print their items with repr(); data objects inside print as Class(value) there too
        if isinstance(v, dict):
            return "{" + ", ".join(f"{k!r}: {_render_item(x)}" for k, x in v.items()) + "}"
        inner = ", ".join(_render_item(x) for x in v)
        return "[" + inner + "]" if isinstance(v, list) else "(" + inner + ("," if len(v) == 1 else "") + ")"
    return str(v)


def _is_data(v: Any) -> bool:
    return isinstance(v, dict) and set(v) <= {"t", "v"} and "t" in v and isinstance(v["t"], str)


def _holds_data(v: Any) -> bool:
    if _is_data(v):
        return True
    if isinstance(v, dict):
        return any(_holds_data(x) for x in v.values())
    if isinstance(v, (list, tuple)):
        return any(_holds_data(x) for x in v)
    return False


def _render_item(v: Any) -> str:
    return render(v) if (_is_data(v) or (isinstance(v, (dict, list, tuple)) and _holds_data(v))) else repr(v)


def _elem_apply(name: str, base: Dict[str, Any], d: float, vals: Dict[str, Any], ctx: Dict[str, Any]) -> Any:
    """Apply one wrapped data processor to a float element (operation -> float, probe -> result)."""
    if name == "VCtxWriteOp":
        w = vals["w"]
        prod = _leaf(lambda: d * w)
        ctx["w_key"] = prod
        return _leaf(lambda: _must_float(d + w))
    if name == "VLongTailOp":
        ctx["long_key"] = [1.0] * 80 + [d]
        return d
    if name == "VUndeclaredWriteOp":
        raise MFail("UNDECLARED", "KeyError", "sneaky")
    if name == "VRaiseOp":
        kind = vals["kind"]
        name_ = _leaf(lambda: EXC_NAMES[kind])  # unknown kind -> KeyError, unhashable -> TypeError
        raise MFail("PROCESSOR", name_, "injected")
    args = [vals[n] for n, _ in base["params"]]
    return _leaf(base["fn"], d, *args)


def _apply(desc, node, data, ctx, vals, files) -> Tuple[Dict[str, Any], bool]:
    kind = desc["kind"]
    sub = desc.get("sub")
    if kind == "ctx":
        if sub == "rename":
            ctx[desc["dst"]] = vals[desc["src"]]
            if desc["src"] not in ctx:
                raise MFail("PROCESSOR", "KeyError", "rename source not in context")
            del ctx[desc["src"]]
        elif sub == "delete":
            if desc["key"] not in ctx:
                raise MFail("PROCESSOR", "KeyError", "delete key not in context")
            del ctx[desc["key"]]
        else:
            rendered = _leaf(lambda: desc["template"].format(**{k: render(vals[k]) for k, _ in desc["params"]}))
            ctx[desc["out"]] = rendered
        return data, False
    if sub == "sweep":
        return _apply_sweep(desc, node, data, ctx, vals)
    name = desc.get("base", node["p"])
    base = LIB[name]
    if kind == "source":
        args = [vals[n] for n, _ in base["params"]]
        return F(_leaf(base["fn"], *args)), False
    if kind == "payload_source":
        args = [vals[n] for n, _ in base["params"]]
        value, injected = _leaf(base["fn"], *args)
        for k in injected:
            if k not in base["keys"]:
                raise MFail("UNDECLARED", "KeyError", k)
        for k, v in injected.items():
            if k in ctx:
                raise MFail("PROCESSOR", "KeyError", "payload key collision")
            ctx[k] = v
        return F(value), False
    if kind == "sink":
        if base.get("writes_file"):
            path = vals["path"]
            if not isinstance(path, str):
                raise MFail("PROCESSOR", "TypeError", "path")
            if len(path.encode("utf-8")) > 255:
                raise MFail("PROCESSOR", "OSError", "file name too long")
            files[path] = str(data["v"]) + "\n"
        return data, False
    if name == "DataDump":
        return dict(NODATA), False
    if name == "CopyDataProbe":
        ctx[node["context_key"]] = copy.deepcopy(data)
        return data, False
    if kind == "operation":
        if sub == "slice":
            out = [_elem_apply(name, base, d, vals, ctx) for d in data["v"]]
            return C(out, desc["collection"]), False
        if base["inp"] == "Coll":
            return F(_leaf(base["fn"], list(data["v"]))), False
        return F(_elem_apply(name, base, data["v"], vals, ctx)), False
    if kind == "probe":
        if sub == "slice":
            result = [_elem_apply(name, base, d, vals, ctx) for d in data["v"]]
        else:
            result = _elem_apply(name, base, data["v"], vals, ctx)
        ctx[node["context_key"]] = result
        return data, False
    raise AssertionError(kind)


def _apply_sweep(desc, node, data, ctx, vals) -> Tuple[Dict[str, Any], bool]:
    sw = node["sweep"]
    name = node["p"]
    base = LIB[name]
    resolved = {k: (v, None, None) for k, v in vals.items()}
    seqs = {v: materialise(spec, resolved) for v, spec in sw["vars"].items()}
    approx = any(spec["kind"] == "range" or spec.get("np") for spec in sw["vars"].values())
    steps = sweep_steps(seqs, sw.get("mode", "combinatorial"), bool(sw.get("broadcast", False)))
    ctx_keys = {spec["key"] for spec in sw["vars"].values() if spec["kind"] == "ctx"}
    base_kwargs = {k: v for k, v in vals.items() if k in {n for n, _ in base["params"]} and k not in sw.get("params", {})}
    results = []
    for st in steps:
        call = dict(base_kwargs)
        for pname, expr in sw.get("params", {}).items():
            call[pname] = eval_expr(expr, st)
        missing = [n for n, dflt in base["params"] if n not in call]
        if missing:
            # the wrapped processor is called without a parameter it needs
            raise MFail("PROCESSOR", "TypeError", "missing " + ",".join(missing))
        if base["kind"] == "source":
            args = [call[n] for n, _ in base["params"]]
            results.append(_leaf(base["fn"], *args))
        else:
            results.append(_elem_apply(name, base, data["v"], call, ctx))
    for v in sw["vars"]:
        ctx[f"{v}_values"] = list(seqs[v])
    if base["kind"] == "probe":
        ctx[node["context_key"]] = results
        return data, approx
    for r in results:
        if not isinstance(r, float):
            raise MFail("PROCESSOR", "TypeError", "collection element")
    return C(results, sw.get("collection", "FloatDataCollection")), approx


# ---- conversion to a real semantiva configuration ----------------------------------------------------
def to_config(case: Dict[str, Any]) -> List[Dict[str, Any]]:
    out = []
    for node in case["nodes"]:
        cfg: Dict[str, Any] = {"processor": node["p"]}
        if node.get("params"):
            # "$key:true" / "$key:0" stand for the non-string mapping keys YAML produces for `on:` / `0:`
            cfg["parameters"] = {({"$key:true": True, "$key:false": False, "$key:0": 0}.get(k, k) if isinstance(k, str) else k): v
                                 for k, v in copy.deepcopy(node["params"]).items()}
        if node.get("context_key") is not None:
            cfg["context_key"] = node["context_key"]
        sw = node.get("sweep")
        if sw:
            variables = {}
            for v, spec in sw["vars"].items():
                if spec["kind"] == "values" and spec.get("np"):
                    variables[v] = {"values": real_values(spec)}
                elif spec["kind"] == "values":
                    if spec.get("form") == "list" and len(spec["values"]) != 2:
                        variables[v] = list(spec["values"])  # bare-list shorthand (unambiguous when len != 2)
                    else:
                        variables[v] = {"values": list(spec["values"])}
                elif spec["kind"] == "ctx":
                    variables[v] = {"from_context": spec["key"]}
                else:
                    variables[v] = {"lo": spec["lo"], "hi": spec["hi"], "steps": spec["steps"],
                                    "scale": spec.get("scale", "linear"), "endpoint": spec.get("endpoint", True)}
            ps: Dict[str, Any] = {"parameters": dict(sw.get("params", {})), "variables": variables,
                                  "mode": sw.get("mode", "combinatorial"), "broadcast": bool(sw.get("broadcast", False))}
            if LIB[node["p"]]["kind"] != "probe":
                ps["collection"] = sw.get("collection", "FloatDataCollection")
            cfg["derive"] = {"parameter_sweep": ps}
        out.append(cfg)
    return out
