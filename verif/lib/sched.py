"""Deterministic line-granularity thread scheduler for one module (DESIGN C14).

Every scenario thread runs under ``sys.settrace`` restricted to the target module's file; at each
``line`` event it parks and the coordinator releases exactly one thread. The module's ``threading``
name is shadowed by a shim whose ``Lock`` / ``RLock`` are cooperative: a blocked acquire is a
scheduling point, so the coordinator can never deadlock on a parked lock holder.

A *schedule* is a list of small integers: the option taken at each decision point (a yield point at
which >= 2 threads are enabled). Option 0 = keep running the current thread (or the lowest thread
id if the current one is not enabled); choosing another thread while the current one is enabled
costs one *preemption*.
"""
from __future__ import annotations

import sys
import threading as _real_threading
from typing import Any, Callable, Dict, List, Optional, Tuple


class _Abort(BaseException):
    pass


class Scheduler:
    def __init__(self, target_file: str, choices: List[int], max_steps: int = 4000):
        self.target_file = target_file
        self.choices = list(choices)
        self.max_steps = max_steps
        self.decisions: List[Tuple[int, int, List[int]]] = []  # (n_options, chosen, cost per option)
        self.preemptions = 0
        self.preempt_inside: int = 0
        self.steps = 0
        self.threads: List[Dict[str, Any]] = []
        self.back = _real_threading.Semaphore(0)
        self.current: Optional[int] = None
        self.errors: List[str] = []
        self.deadlock = False
        self.aborted = False
        self._tls = _real_threading.local()

    # ---- cooperative primitives handed to the module under test --------------------------------------
    def make_shim(self):
        sched = self

        class CoopLock:
            def __init__(self, reentrant: bool = False):
                self.owner: Optional[int] = None
                self.count = 0
                self.reentrant = reentrant

            def acquire(self, blocking: bool = True, timeout: float = -1) -> bool:
                tid = getattr(sched._tls, "tid", None)
                if tid is None:  # not a scheduled thread (e.g. the final single-threaded drain)
                    self.owner, self.count = -1, self.count + 1
                    return True
                while True:
                    if self.owner is None or (self.reentrant and self.owner == tid):
                        self.owner = tid
                        self.count += 1
                        return True
                    if not blocking:
                        return False
                    sched._park(tid, blocked_on=self)

            def release(self) -> None:
                self.count -= 1
                if self.count <= 0:
                    self.owner, self.count = None, 0

            def locked(self) -> bool:
                return self.owner is not None

            __enter__ = lambda self: self.acquire()  # noqa: E731

            def __exit__(self, *a):
                self.release()
                return False

        class Shim:
            Lock = staticmethod(lambda: CoopLock(False))
            RLock = staticmethod(lambda: CoopLock(True))
            Thread = _real_threading.Thread
            Event = _real_threading.Event
            Condition = _real_threading.Condition
            Semaphore = _real_threading.Semaphore
            local = _real_threading.local
            current_thread = staticmethod(_real_threading.current_thread)
            get_ident = staticmethod(_real_threading.get_ident)

        return Shim

    # ---- thread side ---------------------------------------------------------------------------------
    def _tracer(self, frame, event, arg):
        if frame.f_code.co_filename != self.target_file:
            return None
        return self._local_tracer

    def _local_tracer(self, frame, event, arg):
        if event == "line":
            tid = self._tls.tid
            self.threads[tid]["inside"] = frame.f_code.co_name
            self._park(tid)
        return self._local_tracer

    def _park(self, tid: int, blocked_on: Any = None) -> None:
        t = self.threads[tid]
        t["state"] = "blocked" if blocked_on is not None else "ready"
        t["lock"] = blocked_on
        self.back.release()
        t["go"].acquire()
        if self.aborted:
            raise _Abort()
        t["state"] = "running"
        t["lock"] = None

    def _body(self, tid: int, fn: Callable[[], None]) -> None:
        self._tls.tid = tid
        t = self.threads[tid]
        t["go"].acquire()  # wait for the first release
        try:
            if not self.aborted:
                sys.settrace(self._tracer)
                try:
                    fn()
                finally:
                    sys.settrace(None)
        except _Abort:
            pass
        except BaseException as exc:  # noqa: BLE001
            self.errors.append(f"thread {tid}: {type(exc).__name__}: {exc}")
        finally:
            t["state"] = "done"
            t["inside"] = None
            self.back.release()

    # ---- coordinator -----------------------------------------------------------------------------------
    def run(self, fns: List[Callable[[], None]]) -> None:
        for i, fn in enumerate(fns):
            self.threads.append({"state": "ready", "go": _real_threading.Semaphore(0), "lock": None, "inside": None})
        real = [_real_threading.Thread(target=self._body, args=(i, fn), daemon=True) for i, fn in enumerate(fns)]
        for th in real:
            th.start()
        self.current = None
        while True:
            enabled = [i for i, t in enumerate(self.threads)
                       if t["state"] == "ready" or (t["state"] == "blocked" and (t["lock"].owner is None))]
            if not enabled:
                if all(t["state"] == "done" for t in self.threads):
                    break
                self.deadlock = True
                break
            self.steps += 1
            if self.steps > self.max_steps:
                self.errors.append("step budget exhausted")
                break
            nxt = self._choose(enabled)
            self.current = nxt
            self.threads[nxt]["state"] = "running"
            self.threads[nxt]["go"].release()
            self.back.acquire()  # until it parks again or finishes
        # release everything that is still parked so that threads can end
        if any(t["state"] != "done" for t in self.threads):
            self.aborted = True
            for t in self.threads:
                if t["state"] != "done":
                    t["go"].release()
        for th in real:
            th.join(timeout=5)

    def _choose(self, enabled: List[int]) -> int:
        cur = self.current
        if len(enabled) == 1:
            return enabled[0]
        cur_enabled = cur in enabled
        options = ([cur] if cur_enabled else []) + [i for i in enabled if i != cur]
        costs = [0 if (not cur_enabled or o == cur) else 1 for o in options]
        k = len(self.decisions)
        pick = self.choices[k] % len(options) if k < len(self.choices) else 0
        self.decisions.append((len(options), pick, costs))
        if costs[pick]:
            self.preemptions += 1
            if self.threads[cur]["inside"] in ("publish", "__iter__") or self.threads[options[pick]]["inside"] in ("publish", "__iter__"):
                self.preempt_inside += 1
        return options[pick]


def next_schedule(decisions: List[Tuple[int, int, List[int]]], bound: int) -> Optional[List[int]]:
    """Depth-first successor of the executed schedule within the preemption bound, or None when exhausted."""
    cost_prefix = [0]
    for (_n, pick, costs) in decisions:
        cost_prefix.append(cost_prefix[-1] + costs[pick])
    for i in range(len(decisions) - 1, -1, -1):
        n, pick, costs = decisions[i]
        for alt in range(pick + 1, n):
            if cost_prefix[i] + costs[alt] <= bound:
                return [d[1] for d in decisions[:i]] + [alt]
    return None
