"""Harness-defined processors, registered exactly like a user extension module.

They make behaviour observable without hooks in the repository: a context-writing operation, an
operation that writes an undeclared key, a probe that echoes the parameters it received, an
operation that raises a pre-built exception object, a payload source that injects declared keys,
marker components that leave a file behind when executed.
"""
from __future__ import annotations

import os
from typing import List

from semantiva.context_processors import ContextType
from semantiva.data_io import DataSink, DataSource, PayloadSink, PayloadSource
from semantiva.data_processors import DataOperation
from semantiva.data_types import BaseDataType
from semantiva.examples.test_utils import (
    FloatDataCollection,
    FloatDataType,
    FloatOperation,
    FloatProbe,
)
from semantiva.pipeline import Payload


class VCtxWriteOp(FloatOperation):
    """Adds w to the data and records the product data*w under the declared key w_key."""

    def _process_logic(self, data, w: float):
        self._notify_context_update("w_key", data.data * w)
        return FloatDataType(data.data + w)

    @classmethod
    def context_keys(cls) -> List[str]:
        return ["w_key"]


class VLongTailOp(FloatOperation):
    """Identity on the data; (re)writes the declared key long_key with a long list whose only varying element is the last."""

    def _process_logic(self, data):
        self._notify_context_update("long_key", [1.0] * 80 + [data.data])
        return FloatDataType(data.data)

    @classmethod
    def context_keys(cls) -> List[str]:
        return ["long_key"]


class VUndeclaredWriteOp(FloatOperation):
    """Tries to write a context key it never declared."""

    def _process_logic(self, data):
        self._notify_context_update("sneaky", data.data)
        return FloatDataType(data.data)


class VEchoProbe(FloatProbe):
    """Returns the parameters it actually received."""

    def _process_logic(self, data, p, q: float = 5.0):
        return {"p": p, "q": q, "d": data.data}


class VVerifAbort(BaseException):
    """A BaseException subclass that is not an Exception (KeyboardInterrupt-class abort)."""


EXC_OBJECTS = {
    "value": ValueError("verif injected ValueError"),
    "runtime": RuntimeError("verif injected RuntimeError"),
    "keyboard": KeyboardInterrupt("verif injected KeyboardInterrupt"),
    "abort": VVerifAbort("verif injected BaseException"),
    # message-less exception objects (str(exc) == "")
    "value_empty": ValueError(),
    "keyboard_empty": KeyboardInterrupt(),
    "assert_empty": AssertionError(),
    # exceptions whose args are empty or not a single string
    "key_empty": KeyError(),
    "key_tuple": KeyError(("a", 1)),
    "os_empty": OSError(),
    "args_two": RuntimeError(1, "two"),
    "system_exit": SystemExit(3),
}


INIT_FAULT = {"kind": None}  # armed by observe.run_real for the duration of one process() call


class VInitFaultOp(FloatOperation):
    """Identity operation whose constructor raises the pre-built exception named by INIT_FAULT (construction-time abort)."""

    def __init__(self, *args, **kwargs):
        kind = INIT_FAULT["kind"]
        if kind:
            raise EXC_OBJECTS[kind]
        super().__init__(*args, **kwargs)

    def _process_logic(self, data):
        return data


class VRaiseOp(FloatOperation):
    """Raises a pre-built exception object selected by ``kind`` (identity is checked by the harness)."""

    def _process_logic(self, data, kind: str = "value"):
        raise EXC_OBJECTS[kind]


class VInPlaceScaleOp(FloatOperation):
    """Scales its payload IN PLACE and returns the very same object (legal, but unusual)."""

    def _process_logic(self, data, k: float = 1.5):
        data.data = data.data * k
        if not isinstance(data.data, float):
            raise TypeError("Data must be a float")
        return data


class VNoneDefaultProbe(FloatProbe):
    """A probe with a parameter whose declared default is literally None."""

    def _process_logic(self, data, tag=None):
        return {"tag": tag, "d": data.data}


class VDefaultsProbe(FloatProbe):
    """A probe whose defaults are small ints, short strings and booleans (objects the interpreter shares)."""

    def _process_logic(self, data, n: int = 2, label: str = "x", flag: bool = True):
        return {"n": n, "label": label, "flag": flag, "d": data.data}


class VLazyFloatStream(BaseDataType):
    """A lazy data type: wraps a one-shot iterator of floats."""

    def validate(self, data):
        if not hasattr(data, "__next__"):
            raise TypeError("VLazyFloatStream wraps an iterator")
        return True

    def __repr__(self):
        return "VLazyFloatStream(<lazy>)"

    __str__ = __repr__


class VStreamSumOp(DataOperation):
    """Drains a VLazyFloatStream and returns the sum as FloatDataType."""

    @classmethod
    def input_data_type(cls):
        return VLazyFloatStream

    @classmethod
    def output_data_type(cls):
        return FloatDataType

    def _process_logic(self, data):
        return FloatDataType(float(sum(data.data)))


class VIterSumOp(FloatOperation):
    """Adds the sum of ``items`` (any iterable, possibly a one-shot iterator taken from the context) to the data."""

    def _process_logic(self, data, items):
        return FloatDataType(data.data + float(sum(items)))


class VPayloadSourceWithKeys(PayloadSource):
    """Payload source that injects two declared context keys."""

    @classmethod
    def _get_payload(cls, seed: float = 1.5) -> Payload:
        return Payload(FloatDataType(seed * 2.0), ContextType({"ps_a": seed, "ps_b": "txt"}))

    @classmethod
    def output_data_type(cls):
        return FloatDataType

    @classmethod
    def _injected_context_keys(cls):
        return ["ps_a", "ps_b"]


class VMarkerSource(DataSource):
    """Data source that appends a line to ``marker`` when executed."""

    @classmethod
    def _get_data(cls, marker: str, value: float = 1.0) -> FloatDataType:
        with open(marker, "a") as fh:
            fh.write("source\n")
        return FloatDataType(value)

    @classmethod
    def output_data_type(cls):
        return FloatDataType


class VMarkerOp(FloatOperation):
    """Operation that appends a line to ``marker`` when executed (data passes through)."""

    def _process_logic(self, data, marker: str):
        with open(marker, "a") as fh:
            fh.write("op\n")
        return FloatDataType(data.data)


class VNestedParamOp(FloatOperation):
    """Accepts a nested dict/list parameter (identity tests for parameter values at any depth)."""

    def _process_logic(self, data, opts: dict):
        k = opts.get("k", 1.0) if isinstance(opts, dict) else 1.0
        return FloatDataType(data.data * float(k if isinstance(k, (int, float)) else 1.0))


class VFloatCollection2(FloatDataCollection):
    """A second collection type (so that a sweep's ``collection`` can be mutated)."""


class VNoDocSource(VMarkerSource):
    pass


class VNoDocProbe(VEchoProbe):
    pass


class VNoDocOp(VCtxWriteOp):
    pass


class _DocSink(DataSink):
    """A documented sink base."""

    @classmethod
    def _send_data(cls, data, tag: str = "t"):
        return None

    @classmethod
    def input_data_type(cls):
        return FloatDataType


class VNoDocSink(_DocSink):
    pass


class VNoDocPayloadSource(VPayloadSourceWithKeys):
    pass


class VDualStore(DataSource, DataSink[FloatDataCollection]):
    """A store that can be read (DataSource) and written (DataSink): one class, two IO roles."""

    @classmethod
    def _get_data(cls, slot: str = "default"):
        return FloatDataType(7.0)

    @classmethod
    def output_data_type(cls):
        return FloatDataType

    @classmethod
    def _send_data(cls, data, slot: str = "default"):
        return None

    @classmethod
    def input_data_type(cls):
        return FloatDataCollection


class VDualStoreSinkFirst(DataSink[FloatDataCollection], DataSource):
    """The same two roles, bases written sink first."""

    @classmethod
    def _get_data(cls, slot: str = "default"):
        return FloatDataType(7.0)

    @classmethod
    def output_data_type(cls):
        return FloatDataType

    @classmethod
    def _send_data(cls, data, slot: str = "default"):
        return None

    @classmethod
    def input_data_type(cls):
        return FloatDataCollection


class VDualPayloadStore(PayloadSource, PayloadSink[FloatDataCollection]):
    """A payload store that can be read (PayloadSource) and written (PayloadSink)."""

    @classmethod
    def _get_payload(cls):
        from semantiva.pipeline import Payload

        return Payload(FloatDataType(7.0), ContextType({"store_slot": "default"}))

    @classmethod
    def output_data_type(cls):
        return FloatDataType

    @classmethod
    def _injected_context_keys(cls):
        return ["store_slot"]

    @classmethod
    def _send_payload(cls, payload):
        return None

    @classmethod
    def input_data_type(cls):
        return FloatDataCollection


class VNsA:
    """Two namespaces holding a class of the same name but different meaning."""

    class Scale(FloatOperation):
        """Multiplies by k."""

        def _process_logic(self, data, k: float = 2.0):
            return FloatDataType(data.data * k)


class VNsB:
    """See VNsA."""

    class Scale(FloatOperation):
        """Divides by k."""

        def _process_logic(self, data, k: float = 2.0):
            return FloatDataType(data.data / k)


class VArrayDefaultOp(FloatOperation):
    """An operation one of whose parameters defaults to a numpy array (element-wise ==)."""

    def _process_logic(self, data, weights=__import__("numpy").array([1.0, 2.0]), gain: float = 1.0):
        return FloatDataType(float(data.data * gain * float(sum(weights))))


class VArrayDefaultProbe(FloatProbe):
    """A probe with a numpy-array default."""

    def _process_logic(self, data, weights=__import__("numpy").array([0.5, 0.5, 1.0])):
        return float(data.data * float(sum(weights)))


class VLab:
    """Namespace class: the data type below is a nested class (its __qualname__ differs from its __name__)."""

    class Reading(FloatDataType):
        """A float reading."""


class VNestedTypeSource(DataSource):
    """Source of a nested data type."""

    @classmethod
    def _get_data(cls):
        return VLab.Reading(1.0)

    @classmethod
    def output_data_type(cls):
        return VLab.Reading


class VNestedTypeSink(DataSink[VLab.Reading]):
    """Sink of a nested data type."""

    @classmethod
    def _send_data(cls, data):
        return None

    @classmethod
    def input_data_type(cls):
        return VLab.Reading


class VNestedTypeProbe(FloatProbe):
    """Probe of a nested data type."""

    @classmethod
    def input_data_type(cls):
        return VLab.Reading

    def _process_logic(self, data):
        return data.data


MODULE = __name__


def register() -> None:
    """Register the example components and these harness components by name."""
    from semantiva.registry.processor_registry import ProcessorRegistry

    ProcessorRegistry.register_modules(["semantiva.examples.test_utils", MODULE])


def touch_exists(path: str) -> bool:
    return os.path.exists(path)


SAMPLES: dict = {}


class VSamplerProbe(FloatProbe):
    """Records registry / gc population when ``idx`` is one of the sampling indexes (used inside launches, C18)."""

    def _process_logic(self, data, idx, sample_at: list = None):
        if sample_at and idx in sample_at:
            import gc

            from semantiva.core.semantiva_component import get_component_registry

            gc.collect()
            reg = get_component_registry()
            SAMPLES[idx] = {"registry": sum(len(v) for v in reg.values()), "objects": len(gc.get_objects()),
                            "buckets": {k: len(v) for k, v in reg.items()}}
        return data.data
