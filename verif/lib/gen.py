"""Hypothesis strategies for pipeline programs (generator G, DESIGN 3.2) and sweep specs."""
from __future__ import annotations

from typing import Any, Dict, List, Optional

from hypothesis import strategies as st

from . import model as M

FLOATS = [1.0, -1.5, 2.0, 2.5, 3.0, 0.5, -2.0, 4.0, 10.0, 0.0, 0.3, 0.7]
PARAM_KEYS = ["factor", "addend", "divisor", "value", "w", "p", "q", "path", "seed", "k", "tag", "n", "label", "flag"]
OTHER_KEYS = ["a", "b", "c", "k1", "K1", "out", "t_values", "w_key", "ps_a", "seq", "long_key", "x.y", "x_y"]  # k1 / K1: equal ignoring case  # x.y / x_y: distinct keys, one identifier
ALL_KEYS = PARAM_KEYS + OTHER_KEYS
PATHS = ["out_a.txt", "out_b.txt"]

floats = st.one_of(st.sampled_from(FLOATS), st.sampled_from(FLOATS),
                   st.floats(min_value=-100, max_value=100, allow_nan=False, allow_infinity=False, width=32))
wrong = st.one_of(st.just("s"), st.just([1.0]), st.just({"k": 2.0}))


def value_for(name: str, bad: float = 0.06):
    """A value of the kind consumers of ``name`` expect (occasionally a wrong kind)."""
    if name == "path":
        good = st.sampled_from(PATHS)
    elif name == "kind":
        good = st.sampled_from(["value", "runtime"])
    elif name == "tag":
        good = st.sampled_from(["s", "tx", "run1", "1e3", None])  # "1e3": a string for YAML 1.1, a float for YAML 1.2
    elif name in ("seq", "t_values"):
        good = st.lists(st.sampled_from(FLOATS), min_size=1, max_size=3)
    elif name in ("a", "b", "c", "k1", "out"):
        good = st.one_of(floats, st.sampled_from(["s", "tx"]), st.lists(st.sampled_from(FLOATS), min_size=1, max_size=3))
    elif name in ("p", "q") and bad > 0:
        # a context / config value may literally be None (present-with-None is not the same as absent)
        good = st.one_of(*([floats] * 12), st.none())
    elif name == "n":  # values equal to (and identical with) the declared default occur on purpose
        good = st.sampled_from([2, 3, 2, 7])
    elif name == "label":
        good = st.sampled_from(["x", "y", "x"])
    elif name == "flag":
        good = st.sampled_from([True, False, True])
    elif name == "opts":
        good = st.fixed_dictionaries({"k": floats})
    elif name == "long_key":  # a value whose repr is far longer than any display limit; variants differ only at the end
        good = st.sampled_from(FLOATS).map(lambda x: [1.0] * 80 + [x])
    else:
        good = floats
    if bad <= 0:
        return good
    return st.one_of(*([good] * 39), wrong) if bad < 0.1 else st.one_of(good, good, wrong)


SOURCES = ["FloatValueDataSource", "FloatValueDataSourceWithDefault", "FloatDataSource", "FloatPayloadSource",
           "VPayloadSourceWithKeys"]
FLOAT_OPS = ["FloatMultiplyOperation", "FloatMultiplyOperationWithDefault", "FloatAddOperation", "FloatSquareOperation",
             "FloatSqrtOperation", "FloatDivideOperation", "VCtxWriteOp", "VInPlaceScaleOp", "VLongTailOp"]
RARE_OPS = ["VUndeclaredWriteOp", "VRaiseOp"]
PROBES = ["FloatBasicProbe", "FloatCollectValueProbe", "VEchoProbe", "VNoneDefaultProbe", "VDefaultsProbe"]
SINKS = ["FloatDataSink", "FloatPayloadSink", "FloatMockDataSink", "FloatTxtFileSaver"]
SLICE_OPS = ["FloatMultiplyOperation", "FloatMultiplyOperationWithDefault", "FloatAddOperation", "FloatSquareOperation",
             "FloatDivideOperation", "VCtxWriteOp", "VInPlaceScaleOp"]
SLICE_PROBES = ["FloatCollectValueProbe", "FloatBasicProbe", "VEchoProbe"]
SWEEPABLE = {"source": ["FloatValueDataSource", "FloatValueDataSourceWithDefault"],
             "operation": ["FloatMultiplyOperation", "FloatMultiplyOperationWithDefault", "FloatAddOperation",
                           "FloatDivideOperation", "VCtxWriteOp"],
             "probe": ["VEchoProbe"]}

EXPRS1 = ["5.0", "min(5.0, 7.0)", "{v}", "2 * {v}", "{v} + 1.0", "-{v}", "abs({v}) + 0.5", "{v} * {v}", "max({v}, 1.0)", "{v} / 2", "float({v})",
          "{v} + (0.1 + 0.2)", "({v} + 0.1) + 0.2", "0.1 + ({v} + 0.2)", "({v} * 0.1) * 3.0", "{v} * (0.1 * 3.0)",
          # + / * chains inside call arguments, comparisons and conditional branches
          "max({v} + 0.5, 1.0)", "abs(0.5 + {v} * 2.0)", "min(1.0 + {v}, {v} * 2.0)", "{v} if 0.5 + {v} > 1.0 else 2.0 * {v}"]
EXPRS2 = ["{v} + {u}", "{v} * {u}", "{v} - {u}", "{u} * 2 + {v}", "min({v}, {u})", "{v} if {v} > {u} else {u}",
          "({v} + {u}) * 0.5", "{v} + {u} + 0.5", "0.5 + ({v} + {u})", "{v} * {u} * 2.0", "2.0 * ({u} * {v})", "({v} + 1.0) + ({u} + 2.0)", "2.0 * {v} + {u} * 3.0", "({v} + 1.0) * (2.0 + {u})", "{v} * {u} + 1.0", "({v} + {u}) * 2.0",
          "max({v} + {u}, 0.5)", "abs({u} * {v})", "{v} if {v} + {u} > 1.0 else {u}", "min({u} * {v}, {v} + {u})", "2.0 * max({v} + {u}, 0.5)",
          # chained comparisons and non-commutative operators between two variables
          "{v} if {v} == {u} != 1.0 else {u}", "{v} if 0.5 < {v} <= {u} else {u} - {v}", "({v} - {u}) / 2.0", "{v} ** 2 - {u}", "float({v} != {u} == 2.0)"]


# expressions whose meaning hinges on operand order / chain structure (targets of the semantic mutation operators)
EXPRS2_SEMANTIC = ["{v} and {u}", "({v} or {u}) * 2.0", "round({v} * {u}, ndigits=int({v} + 1.0 + {u}))", "{v} if {v} == {u} != 1.0 else {u}", "{v} if 0.5 < {v} <= {u} else {u} - {v}", "({v} - {u}) / 2.0", "{v} ** 2 - {u}",
                   "float({v} != {u} == 2.0)", "min({u} * {v}, {v} + {u})", "max({v} - 1.0, {u}) - {v}", "{u} if {v} < {u} < 3.0 else {v}"]


@st.composite
def var_spec(draw, allow_ctx: bool = True, rich: bool = False):
    kinds = ["values", "values", "range"] + (["ctx"] if allow_ctx else [])
    k = draw(st.sampled_from(kinds))
    if k == "values":
        if rich and draw(st.integers(0, 5)) == 0:  # occasionally a long explicit sequence (interior elements matter too)
            if draw(st.sampled_from([False, False, True])):
                return {"kind": "values", "values": [float((i * draw(st.sampled_from([1, 3]))) % 11) for i in range(draw(st.sampled_from([32, 40, 65])))]}
            return {"kind": "values", "values": draw(st.lists(st.sampled_from(FLOATS), min_size=7, max_size=10))}
        spec = {"kind": "values", "values": draw(st.lists(st.sampled_from(FLOATS), min_size=1, max_size=4 if rich else 3))}
        if rich and draw(st.sampled_from([False] * 6 + [True])):
            # values that compare equal but differ in type or sign, and non-finite floats, within one sequence
            spec = {"kind": "values", "values": draw(st.lists(st.sampled_from([1, 1.0, True, 0, 0.0, False, -0.0, 2, 2.0, float("inf"), float("-inf"), 3.0]), min_size=2, max_size=5))}
        elif rich == "numpy" and draw(st.sampled_from([False] * 7 + [True])):
            # the sequence arrives as numpy scalars, e.g. list(np.arange(3)) handed to the Python API
            spec = {"kind": "values", "values": [float(int(x)) for x in spec["values"]], "np": "int64"}
        return spec
    if k == "ctx":
        return {"kind": "ctx", "key": draw(st.sampled_from(["seq", "t_values", "a"]))}
    scale = draw(st.sampled_from(["linear", "linear", "log"]))
    lo = draw(st.sampled_from([0.5, 1.0, 2.0] if scale == "log" else [0.0, 1.0, -2.0, 0.5]))
    hi = draw(st.sampled_from([4.0, 10.0, 100.0] if scale == "log" else [1.0, 3.0, 5.0, -1.0]))
    return {"kind": "range", "lo": lo, "hi": hi, "steps": draw(st.integers(1, 6 if rich else 4)), "scale": scale,
            "endpoint": draw(st.booleans())}


@st.composite
def sweep_spec(draw, wrapped: str, rich: bool = False):
    base = M.LIB[wrapped]
    nvars = draw(st.sampled_from([1, 1, 2, 2, 3] if rich else [1, 1, 2]))
    names = list(draw(st.permutations(["t", "s", "r"]))[:nvars])
    if rich and nvars >= 2 and draw(st.sampled_from([False] * 4 + [True])):
        names[0], names[1] = "t10", "t9"  # digit runs of different length: plain string order and 'natural' order disagree
    elif rich:  # user-chosen names that coincide with keys the framework uses inside its own metadata blocks
        # ... or with a parameter of the wrapped processor (which the sweep may or may not compute)
        odd = draw(st.sampled_from([None] * 6 + ["expr", "preprocessor_view", "sig", "values", "max", "abs", "float"] +
                                   [n for n, _ in base["params"] if n not in ("marker", "kind", "opts")] * 2))
        if odd:
            names[0] = odd
    vars_: Dict[str, Any] = {}
    used_ctx = set()
    for n in names:
        v = draw(var_spec(rich=rich))
        if v["kind"] == "ctx":
            if v["key"] in used_ctx:  # two variables reading one key: construction is rejected (duplicate parameter)
                v = {"kind": "values", "values": [1.0, 2.0]}
            else:
                used_ctx.add(v["key"])
        vars_[n] = v
    pnames = [n for n, _ in base["params"] if n not in ("marker", "kind", "opts")]
    params: Dict[str, str] = {}
    if pnames:
        k = draw(st.integers(0 if rich else 1, len(pnames))) if len(pnames) > 1 else draw(st.sampled_from([1, 1, 1, 0] if rich else [1]))
        for p in draw(st.permutations(pnames))[:k]:
            if nvars >= 2 and draw(st.booleans()):
                v, u = draw(st.permutations(list(names)))[:2]
                params[p] = draw(st.sampled_from(EXPRS2)).format(v=v, u=u)
            else:
                params[p] = draw(st.sampled_from(EXPRS1)).format(v=draw(st.sampled_from(list(names))))
    mode = draw(st.sampled_from(["combinatorial", "by_position"]))
    spec = {"vars": vars_, "params": params, "mode": mode,
            "broadcast": draw(st.booleans()) if mode == "by_position" else draw(st.sampled_from([False, False, True]))}
    if base["kind"] != "probe":
        spec["collection"] = draw(st.sampled_from(["FloatDataCollection", "FloatDataCollection", "VFloatCollection2"]))
    return spec


def _key(draw, known: List[str], bias_params: bool = True) -> str:
    pools = [ALL_KEYS]
    if known:
        pools += [known] * (2 if bias_params else 6)
    if bias_params:
        pools += [PARAM_KEYS, PARAM_KEYS]
    return draw(st.sampled_from(draw(st.sampled_from(pools))))


@st.composite
def node(draw, kind: str, known: List[str], sweeps: bool = True, rare: bool = True, rich_sweeps: bool = False):
    """Draw one node applicable to data kind ``kind`` (None|NoData|Float|Coll) or a context processor."""
    menu = ["ctx"]
    if kind in ("None", "NoData"):
        menu += ["source"] * 5 + (["sweep_source"] if sweeps else [])
    elif kind == "Float":
        menu += ["op"] * 5 + ["probe"] * 4 + ["sink"] * 2 + ["utility"] + (["sweep_op", "sweep_probe"] if sweeps else []) + (["rare"] if rare and draw(st.integers(0, 3)) == 0 else [])
    else:
        menu += ["slice_op"] * 3 + ["slice_probe"] * 2 + ["sum"] * 2 + ["utility"]
    what = draw(st.sampled_from(menu))
    n: Dict[str, Any] = {}
    if what == "ctx":
        sub = draw(st.sampled_from(["rename", "delete", "template", "template"]))
        if sub == "rename":
            src = _key(draw, known, False)
            dst = draw(st.sampled_from([k for k in ALL_KEYS if k != src]))
            n["p"] = f"rename:{src}:{dst}"
        elif sub == "delete":
            n["p"] = f"delete:{_key(draw, known, False)}"
        else:
            ks = draw(st.lists(st.sampled_from(known or ALL_KEYS) if draw(st.booleans()) else st.sampled_from(ALL_KEYS),
                               min_size=1, max_size=2, unique=True))
            out = draw(st.sampled_from(OTHER_KEYS * 4 + ["path", "path", "p"] + PARAM_KEYS))
            ks = [k for k in ks if "." not in k] or ["a"]  # placeholders must be identifiers (dotted keys are rejected at construction)
            tpl = "_".join("{" + k + "}" for k in ks) + draw(st.sampled_from(["", "_x", ".txt"]))
            n["p"] = f'template:"{tpl}":{out}'
        return n
    if what == "source":
        n["p"] = draw(st.sampled_from(SOURCES))
    elif what == "op":
        n["p"] = draw(st.sampled_from(FLOAT_OPS))
    elif what == "rare":
        n["p"] = draw(st.sampled_from(RARE_OPS))
    elif what == "probe":
        n["p"] = draw(st.sampled_from(PROBES))
    elif what == "sink":
        n["p"] = draw(st.sampled_from(SINKS))
    elif what == "slice_op":
        n["p"] = f"slice:{draw(st.sampled_from(SLICE_OPS))}:FloatDataCollection"
    elif what == "slice_probe":
        n["p"] = f"slice:{draw(st.sampled_from(SLICE_PROBES))}:FloatDataCollection"
    elif what == "sum":
        n["p"] = "FloatCollectionSumOperation"
    elif what == "utility":
        n["p"] = draw(st.sampled_from(["DataDump", "CopyDataProbe"]))
    elif what == "sweep_source":
        n["p"] = draw(st.sampled_from(SWEEPABLE["source"]))
        n["sweep"] = draw(sweep_spec(n["p"], rich_sweeps))
    elif what == "sweep_op":
        n["p"] = draw(st.sampled_from(SWEEPABLE["operation"]))
        n["sweep"] = draw(sweep_spec(n["p"], rich_sweeps))
    elif what == "sweep_probe":
        n["p"] = draw(st.sampled_from(SWEEPABLE["probe"]))
        n["sweep"] = draw(sweep_spec(n["p"], rich_sweeps))
    if n.get("sweep") and rich_sweeps and n["sweep"].get("params") and draw(st.sampled_from([False, False, True])):
        # a parameter the sweep computes is ALSO given in the node's parameters: the computed value has precedence
        pn = draw(st.sampled_from(sorted(n["sweep"]["params"])))
        n.setdefault("params", {})[pn] = draw(st.sampled_from([1001.0, 7.5]))
    desc = M.describe(dict(n, context_key="x"))
    if desc["kind"] == "probe":
        if n["p"] == "CopyDataProbe":
            n["context_key"] = draw(st.sampled_from(OTHER_KEYS * 3 + ["p", "factor"]))
        elif n["p"] == "FloatCollectValueProbe" and "sweep" not in n:
            n["context_key"] = _key(draw, known)
        else:  # dict / list results: mostly non-parameter keys (collisions stay possible, not dominant)
            n["context_key"] = draw(st.sampled_from(OTHER_KEYS * 6 + PARAM_KEYS))
    return n


@st.composite
def case(draw, max_nodes: int = 8, sweeps: bool = True, rare: bool = True, typed_first: float = 0.9,
         rich_sweeps: bool = False, min_nodes: int = 1):
    """A whole case: nodes, parameter placements, initial context and payload."""
    nn = draw(st.integers(min_nodes, max_nodes))
    nodes: List[Dict[str, Any]] = []
    ctx: Dict[str, Any] = {}
    # initial context: a few keys
    for k in draw(st.lists(st.sampled_from(ALL_KEYS), max_size=4, unique=True)):
        ctx[k] = draw(value_for(k))
    known = list(ctx)
    first_kind = draw(st.sampled_from(["None", "None", "NoData", "Float", "Float", "Coll"]))
    kind = first_kind
    for _ in range(nn):
        k_for_node = kind if draw(st.integers(0, 99)) < 94 else draw(st.sampled_from(["None", "Float", "Coll"]))
        n = draw(node(k_for_node, known, sweeps=sweeps, rare=rare, rich_sweeps=rich_sweeps))
        desc = M.describe(n)
        # parameter placement
        params: Dict[str, Any] = {}
        pre_nodes: List[Dict[str, Any]] = []
        if desc["kind"] != "ctx":
            for name, default in desc["params"]:
                place = draw(st.sampled_from(["config"] * 7 + ["initial"] * 4 + ["chain"] * 5 + ["context"] * 2 + ["missing"] +
                                             (["default"] * 3 if default != M.NODEF else [])))
                if place == "config":
                    params[name] = draw(value_for(name, bad=0.03))
                elif place == "initial":
                    if name not in ctx and name not in known:
                        ctx[name] = draw(value_for(name, bad=0.03))
                        known.append(name)
                elif place == "chain":
                    # an earlier node produces the key: a probe (float data), a template (path) or a rename
                    if name == "path":
                        src = draw(st.sampled_from(known)) if known else None
                        if src and src != name and "." not in src:
                            pre_nodes.append({"p": f'template:"f_{{{src}}}.txt":{name}'})
                    elif kind == "Float" and k_for_node == kind:
                        pre_nodes.append({"p": "FloatCollectValueProbe", "context_key": name})
                    else:
                        cands = [k for k in known if k != name and isinstance(ctx.get(k), float)]
                        if cands:
                            src = draw(st.sampled_from(cands))
                            pre_nodes.append({"p": f"rename:{src}:{name}"})
                            known.remove(src)
                        elif name not in ctx and name not in known:
                            ctx[name] = draw(value_for(name, bad=0))
                    if name not in known:
                        known.append(name)
                # context / default / missing: leave unconfigured
        else:
            for name, _d in desc["params"]:
                if name not in known and draw(st.integers(0, 9)) < 7:
                    if name not in ctx:
                        ctx[name] = draw(value_for(name, bad=0))
                    known.append(name)
        nodes.extend(pre_nodes)
        if params:
            n["params"] = params
        nodes.append(n)
        for k in desc["created"]:
            if k and k not in known:
                known.append(k)
        for k in desc["suppressed"]:
            if k in known:
                known.remove(k)
        if desc["kind"] != "ctx" and k_for_node == kind or desc["kind"] in ("source", "payload_source"):
            out = desc.get("out")
            if out:
                kind = "None" if out == "NoData" else out
    # in-place mutation aliases a data object stored in the context by CopyDataProbe: outside the reference model
    if any(n["p"] == "CopyDataProbe" for n in nodes):
        for n in nodes:
            if n["p"] == "VInPlaceScaleOp":
                n["p"] = "FloatMultiplyOperationWithDefault"
                if "params" in n and "k" in n["params"]:
                    n["params"] = {("factor" if k == "k" else k): v for k, v in n["params"].items()}
            elif n["p"] == "slice:VInPlaceScaleOp:FloatDataCollection":
                n["p"] = "slice:FloatMultiplyOperationWithDefault:FloatDataCollection"
                if "params" in n and "k" in n["params"]:
                    n["params"] = {("factor" if k == "k" else k): v for k, v in n["params"].items()}
    # initial payload typed to what the first data node expects (mostly)
    first_data = next((M.describe(n) for n in nodes if M.describe(n)["kind"] != "ctx"), None)
    want = first_data["inp"] if first_data else "None"
    if draw(st.floats(0, 1)) > typed_first:
        want = draw(st.sampled_from(["None", "NoData", "Float", "Coll"]))
    if want in ("None", "NoData"):
        data = draw(st.sampled_from([M.NONE, M.NODATA]))
    elif want == "Float":
        data = M.F(draw(floats))
    else:
        data = M.C(draw(st.lists(st.sampled_from(FLOATS), min_size=draw(st.sampled_from([0, 1, 1, 1])), max_size=3)))
    return {"nodes": nodes, "ctx": ctx, "data": data}
