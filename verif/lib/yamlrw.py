"""Meaning-preserving YAML rewrites and single-point semantic mutators (DESIGN 3.5).

A rewrite is used only if ``yaml.safe_load(rewritten)`` is deep-equal *with type strictness*
(1 != 1.0 != True) to the original modulo the +/* operand commutation inside sweep expressions;
otherwise it is discarded (and counted by the caller).
"""
from __future__ import annotations

import ast
import copy
import random
from typing import Any, Dict, List, Optional, Tuple

import yaml


# ---- type-strict deep equality ---------------------------------------------------------------------
def strict_equal(a: Any, b: Any) -> bool:
    if type(a) is not type(b):
        return False
    if isinstance(a, dict):
        return set(a) == set(b) and all(strict_equal(a[k], b[k]) for k in a)
    if isinstance(a, list):
        return len(a) == len(b) and all(strict_equal(x, y) for x, y in zip(a, b))
    if isinstance(a, float):
        return a == b or (a != a and b != b)
    return a == b


# ---- expression commutation ------------------------------------------------------------------------
def commute_expr(expr: str, rnd: random.Random) -> str:
    """Swap operands of some + and * nodes and re-associate chains (numeric expressions only)."""
    try:
        tree = ast.parse(expr, mode="eval")
    except SyntaxError:
        return expr

    class T(ast.NodeTransformer):
        def visit_BinOp(self, node):  # noqa: N802
            self.generic_visit(node)
            if isinstance(node.op, (ast.Add, ast.Mult)):
                terms: List[ast.expr] = []

                def collect(n):
                    if isinstance(n, ast.BinOp) and type(n.op) is type(node.op):
                        collect(n.left)
                        collect(n.right)
                    else:
                        terms.append(n)

                collect(node)
                rnd.shuffle(terms)
                cur = terms[0]
                for t in terms[1:]:
                    cur = ast.BinOp(left=cur, op=type(node.op)(), right=t) if rnd.random() < 0.5 else \
                        ast.BinOp(left=t, op=type(node.op)(), right=cur)
                return cur
            return node

    new = T().visit(tree)
    return ast.unparse(ast.fix_missing_locations(new))


def map_expressions(cfg: Any, fn) -> Any:
    """Apply fn to every sweep expression string in a configuration mapping (returns a deep copy)."""
    cfg = copy.deepcopy(cfg)
    nodes = cfg["pipeline"]["nodes"] if isinstance(cfg, dict) else cfg
    for n in nodes:
        ps = (n.get("derive") or {}).get("parameter_sweep")
        if isinstance(ps, dict) and isinstance(ps.get("parameters"), dict):
            ps["parameters"] = {k: (fn(v) if isinstance(v, str) else v) for k, v in ps["parameters"].items()}
    return cfg


def normalise_expressions(cfg: Any) -> Any:
    """Canonical form used by the guard: expressions replaced by a commutation-insensitive key."""
    def key(expr: str) -> str:
        try:
            tree = ast.parse(expr, mode="eval")
        except SyntaxError:
            return expr

        def norm(n: ast.AST) -> str:
            if isinstance(n, ast.BinOp) and isinstance(n.op, (ast.Add, ast.Mult)):
                terms: List[str] = []

                def collect(x):
                    if isinstance(x, ast.BinOp) and type(x.op) is type(n.op):
                        collect(x.left)
                        collect(x.right)
                    else:
                        terms.append(norm(x))

                collect(n)
                return type(n.op).__name__ + "(" + ",".join(sorted(terms)) + ")"
            kids = [norm(c) for c in ast.iter_child_nodes(n) if not isinstance(c, (ast.expr_context,))]
            own = type(n).__name__ + (":" + repr(getattr(n, "id", getattr(n, "value", ""))) if isinstance(n, (ast.Name, ast.Constant)) else "")
            return own + "(" + ",".join(kids) + ")"

        return norm(tree.body)

    return map_expressions(cfg, key)


# ---- structural rewrites ---------------------------------------------------------------------------
def permute_keys(obj: Any, rnd: random.Random) -> Any:
    if isinstance(obj, dict):
        items = list(obj.items())
        rnd.shuffle(items)
        return {k: permute_keys(v, rnd) for k, v in items}
    if isinstance(obj, list):
        return [permute_keys(v, rnd) for v in obj]
    return obj


FLOAT_SPELLINGS = [lambda x: repr(x), lambda x: "+" + repr(x) if x >= 0 else repr(x),
                   lambda x: f"{x:.3f}" if float(f"{x:.3f}") == x else repr(x),
                   lambda x: repr(x) + "0" if "e" not in repr(x) and "." in repr(x) else repr(x),
                   lambda x: (repr(x) + "e+0") if "e" not in repr(x) and "." in repr(x) and "inf" not in repr(x) and "nan" not in repr(x) else repr(x)]


def dump(cfg: Any, rnd: random.Random, kinds: List[str]) -> str:
    """Serialise with the chosen cosmetic variations."""

    class D(yaml.SafeDumper):
        pass

    if "float_spelling" in kinds:
        def rep_float(dumper, value):
            if value != value or value in (float("inf"), float("-inf")):
                return yaml.SafeDumper.represent_float(dumper, value)
            return dumper.represent_scalar("tag:yaml.org,2002:float", rnd.choice(FLOAT_SPELLINGS)(value))

        D.add_representer(float, rep_float)
    if "bool_spelling" in kinds:
        D.add_representer(bool, lambda d, v: d.represent_scalar("tag:yaml.org,2002:bool", rnd.choice(["true", "True", "TRUE", "yes", "on"] if v else ["false", "False", "FALSE", "no", "off"])))
    if "quote_strings" in kinds:
        style = rnd.choice(['"', "'"])
        D.add_representer(str, lambda d, v: d.represent_scalar("tag:yaml.org,2002:str", v, style=style))
    if "no_aliases" in kinds:
        D.ignore_aliases = lambda self, data: True  # type: ignore[assignment]
    flow = None
    if "flow" in kinds:
        flow = True
    elif "block" in kinds:
        flow = False
    text = yaml.dump(cfg, Dumper=D, default_flow_style=flow, sort_keys=False,
                     indent=rnd.choice([2, 4, 6]) if "indent" in kinds else 2, width=rnd.choice([40, 80, 200]))
    if "comments" in kinds:
        lines = text.split("\n")
        out = ["# generated by verif", ""]
        for ln in lines:
            out.append(ln)
            if rnd.random() < 0.2 and ln and not ln.lstrip().startswith(("-", "[", "{")) and ln.rstrip().endswith(":"):
                out.append(" " * (len(ln) - len(ln.lstrip()) + 2) + "# note")
            if rnd.random() < 0.1:
                out.append("")
        text = "\n".join(out)
    if "doc_start" in kinds:
        text = "---\n" + text
    return text


def share_subtrees(cfg: Any) -> Any:
    """Make equal sub-trees (dicts/lists with >= 2 members) the *same* object so PyYAML emits anchors/aliases."""
    seen: Dict[str, Any] = {}

    def walk(o):
        if isinstance(o, dict):
            o = {k: walk(v) for k, v in o.items()}
        elif isinstance(o, list):
            o = [walk(v) for v in o]
        else:
            return o
        if len(o) >= 2:
            key = repr(o)
            if key in seen:
                return seen[key]
            seen[key] = o
        return o

    return walk(copy.deepcopy(cfg))


REWRITE_KINDS = ["permute_keys", "flow", "block", "quote_strings", "float_spelling", "bool_spelling", "anchors", "comments",
                 "doc_start", "indent", "commute_expr"]


def rewrite(cfg: Dict[str, Any], rnd: random.Random, kinds: List[str]) -> Optional[Tuple[str, List[str]]]:
    """Return (yaml text, kinds actually applied) or None if the guard rejects the rewrite."""
    work = copy.deepcopy(cfg)
    if "commute_expr" in kinds:
        work = map_expressions(work, lambda e: commute_expr(e, rnd))
    if "permute_keys" in kinds:
        work = permute_keys(work, rnd)
    if "anchors" in kinds:
        work = share_subtrees(work)
    else:
        kinds = kinds + ["no_aliases"]
    text = dump(work, rnd, kinds)
    try:
        back = yaml.safe_load(text)
    except yaml.YAMLError:
        return None
    if not strict_equal(normalise_expressions(back), normalise_expressions(cfg)):
        return None
    return text, [k for k in kinds if k != "no_aliases"]
