"""Traced execution, trace reading, schema validation and fd probing (used by C06, C07, C10, C13)."""
from __future__ import annotations

import copy
import json
import os
from typing import Any, Dict, List, Optional

from . import model as M, observe

_VALIDATORS: Dict[str, Any] = {}


def _schema_dir() -> str:
    import semantiva.trace.schema as sch

    return os.path.dirname(sch.__file__)


def validators() -> Dict[str, Any]:
    """record_type -> Draft 2020-12 validator, resolved through the registry file shipped with the package."""
    if _VALIDATORS:
        return _VALIDATORS
    import jsonschema
    from referencing import Registry
    from referencing.jsonschema import DRAFT202012

    d = _schema_dir()
    registry = Registry()
    by_id = {}
    for fn in os.listdir(d):
        if fn.endswith(".schema.json"):
            contents = json.load(open(os.path.join(d, fn)))
            if isinstance(contents.get("$id"), str):
                by_id[contents["$id"]] = contents
                registry = registry.with_resource(contents["$id"], DRAFT202012.create_resource(contents))
    reg = json.load(open(os.path.join(d, "trace_registry_v1.json")))
    for rtype, uri in reg["records"].items():
        _VALIDATORS[rtype] = jsonschema.validators.Draft202012Validator(
            by_id[uri], registry=registry, format_checker=jsonschema.FormatChecker())
    hdr = [c for i, c in by_id.items() if i.endswith("trace_header_v1.schema.json")][0]
    _VALIDATORS["__header__"] = jsonschema.validators.Draft202012Validator(hdr, registry=registry)
    return _VALIDATORS


def schema_errors(rec: Dict[str, Any]) -> List[str]:
    v = validators()
    rt = rec.get("record_type")
    errs: List[str] = []
    if rt not in v:
        return [f"unknown record_type {rt!r}"]
    errs += [e.message[:160] for e in v[rt].iter_errors(rec)]
    if rt != "ser":
        errs += ["header: " + e.message[:160] for e in v["__header__"].iter_errors(rec)]
    return errs


def open_fds_for(path: str) -> List[str]:
    out = []
    real = os.path.realpath(path)
    for fd in os.listdir("/proc/self/fd"):
        try:
            target = os.readlink(f"/proc/self/fd/{fd}")
        except OSError:
            continue
        if target == real or target.startswith(real + os.sep):
            out.append(target)
    return out


def read_jsonl(path: str) -> Dict[str, Any]:
    raw = open(path, encoding="utf-8").read()
    lines = raw.split("\n")
    complete = raw.endswith("\n") or raw == ""
    recs, bad = [], []
    for i, ln in enumerate(lines):
        if not ln:
            continue
        try:
            recs.append(json.loads(ln))
        except ValueError:
            bad.append(i)
    return {"records": recs, "bad_lines": bad, "complete": complete, "raw": raw}


def run_traced(case: Dict[str, Any], detail: str, mode: str, tdir: str, pipeline: Any = None) -> Dict[str, Any]:
    """Run ``case`` with a JsonlTraceDriver. mode: 'file' (path with suffix) or 'dir'."""
    observe.ensure_registered()
    from semantiva.trace.drivers.jsonl import JsonlTraceDriver

    os.makedirs(tdir, exist_ok=True)
    target = os.path.join(tdir, "trace.ser.jsonl") if mode == "file" else os.path.join(tdir, "traces")
    if mode == "dir_dotted":
        # directory mode on an existing directory whose name looks like a file name with a suffix
        target = os.path.join(tdir, "traces.v1.2")
        os.makedirs(target, exist_ok=True)
    driver = JsonlTraceDriver(target, detail=detail)
    r = observe.run_real(case, trace=driver, pipeline=pipeline)
    files = []
    if mode == "file":
        if os.path.exists(target):
            files = [target]
    elif os.path.isdir(target):
        files = sorted(os.path.join(target, f) for f in os.listdir(target))
    r["trace_target"] = target
    r["trace_files"] = files
    r["open_fds"] = open_fds_for(target)
    r["traces"] = [read_jsonl(f) for f in files]
    r["driver"] = driver
    return r


VOLATILE_TOP = ("run_id", "timestamp", "seq")


def normalise_record(rec: Dict[str, Any]) -> Dict[str, Any]:
    """Remove exactly the documented volatile fields: run id, timestamps, durations, sequence numbers."""
    rec = copy.deepcopy(rec)
    for k in VOLATILE_TOP:
        rec.pop(k, None)
    if isinstance(rec.get("identity"), dict):
        rec["identity"].pop("run_id", None)
    if isinstance(rec.get("timing"), dict):
        rec["timing"] = {}
    return rec
