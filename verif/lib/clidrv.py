"""Drive ``semantiva.cli.main`` in-process (cheap) or ``python -m semantiva.cli`` in a real subprocess."""
from __future__ import annotations

import contextlib
import io
import logging
import os
import subprocess
import sys
from typing import Any, Dict, List, Optional

import yaml

from . import model as M

EXT = "verif.lib.components"


def config_mapping(case_nodes: List[Dict[str, Any]], run_space: Optional[Dict[str, Any]] = None,
                   trace: Optional[Dict[str, Any]] = None) -> Dict[str, Any]:
    cfg: Dict[str, Any] = {"extensions": [EXT], "pipeline": {"nodes": M.to_config({"nodes": case_nodes})}}
    if run_space is not None:
        cfg["run_space"] = run_space
    if trace is not None:
        cfg["trace"] = trace
    return cfg


def write_yaml(path: str, cfg: Dict[str, Any]) -> None:
    with open(path, "w") as fh:
        yaml.safe_dump(cfg, fh, sort_keys=False)


def run_inprocess(argv: List[str], cwd: str) -> Dict[str, Any]:
    import semantiva.cli as cli

    old = os.getcwd()
    out, err = io.StringIO(), io.StringIO()
    code: Any = None
    exc: Optional[BaseException] = None
    os.chdir(cwd)
    try:
        with contextlib.redirect_stdout(out), contextlib.redirect_stderr(err):
            try:
                cli.main(list(argv))
            except SystemExit as e:
                code = e.code if e.code is not None else 0
            except BaseException as e:  # noqa: BLE001 - an escaping exception is itself an observation
                exc = e
    finally:
        os.chdir(old)
        logging.disable(logging.CRITICAL)
    return {"code": code, "stdout": out.getvalue(), "stderr": err.getvalue(), "exc": exc}


def run_subprocess(argv: List[str], cwd: str, env: Optional[Dict[str, str]] = None, timeout: int = 120) -> Dict[str, Any]:
    e = dict(os.environ)
    e.update(env or {})
    p = subprocess.run([sys.executable, "-m", "semantiva.cli"] + list(argv), cwd=cwd, env=e, capture_output=True, text=True,
                       timeout=timeout, stdin=subprocess.DEVNULL)
    return {"code": p.returncode, "stdout": p.stdout, "stderr": p.stderr, "exc": None}


def list_tree(root: str) -> List[str]:
    out = []
    for d, _dirs, files in os.walk(root):
        for f in files:
            out.append(os.path.relpath(os.path.join(d, f), root))
    return sorted(out)
