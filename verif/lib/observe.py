"""Observation points that need no hooks in the repository (DESIGN 3.4)."""
from __future__ import annotations

import builtins
import math
import os
import re
from typing import Any, Dict, List, Optional

from . import model as M

_REGISTERED = False


def ensure_registered() -> None:
    global _REGISTERED
    if not _REGISTERED:
        from . import components

        components.register()
        _REGISTERED = True


# ---- normalisation of real values into the model's JSON form --------------------------------------
def norm_value(v: Any) -> Any:
    try:
        import numpy as np

        if isinstance(v, np.generic):
            return v.item()
        if isinstance(v, np.ndarray):
            lst = v.tolist()
            return [norm_value(x) for x in lst] if isinstance(lst, list) else {"__ndarray0d__": norm_value(lst)}
    except ImportError:  # pragma: no cover
        pass
    if isinstance(v, (list, tuple)):
        return [norm_value(x) for x in v]
    if isinstance(v, dict):
        return {str(k): norm_value(x) for k, x in v.items()}
    if isinstance(v, (str, int, float, bool)) or v is None:
        return v
    if type(v).__name__ == "NoDataType" or (hasattr(v, "data") and type(v).__name__.endswith(("DataType", "Collection", "Collection2"))):
        return norm_data(v)
    return {"__repr__": repr(v), "__type__": type(v).__name__}


def norm_data(d: Any) -> Dict[str, Any]:
    if d is None:
        return {"t": "None"}
    t = type(d).__name__
    if t == "NoDataType":
        return {"t": "NoDataType"}
    if t == "FloatDataType":
        return {"t": t, "v": norm_value(d.data)}
    if t in M.COLLECTIONS:
        return {"t": t, "v": [norm_value(x.data) for x in d.data]}
    return {"t": t, "v": repr(d)}


def norm_ctx(c: Any) -> Dict[str, Any]:
    if hasattr(c, "to_dict"):
        c = c.to_dict()
    return {str(k): norm_value(v) for k, v in dict(c).items()}


def build_data(spec: Optional[Dict[str, Any]]):
    from semantiva.data_types import NoDataType
    from semantiva.examples.test_utils import FloatDataCollection, FloatDataType

    from .components import VFloatCollection2

    if spec is None or spec["t"] == "None":
        return None
    if spec["t"] == "NoDataType":
        return NoDataType()
    if spec["t"] == "FloatDataType":
        return FloatDataType(spec["v"])
    cls = {"FloatDataCollection": FloatDataCollection, "VFloatCollection2": VFloatCollection2}[spec["t"]]
    return cls.from_list([FloatDataType(x) for x in spec["v"]])


# ---- comparison ---------------------------------------------------------------------------------
_NUM = re.compile(r"[-+]?(?:\d+\.\d*|\.\d+|\d+)(?:[eE][-+]?\d+)?")


def _np_norm(s: str) -> str:
    s = re.sub(r"np\.(?:float64|float32|int64)\(([^)]*)\)", r"\1", s)
    return s.replace("np.True_", "True").replace("np.False_", "False").replace("float64", "float").replace("float32", "float").replace("int64", "int")


def _str_close(a: str, b: str) -> bool:
    a, b = _np_norm(a), _np_norm(b)
    a = re.sub(r"np\.float64\(([^)]*)\)", r"\1", a).replace("float64", "float")
    b = re.sub(r"np\.float64\(([^)]*)\)", r"\1", b).replace("float64", "float")
    if _NUM.sub("#", a) != _NUM.sub("#", b):
        return False
    na, nb = _NUM.findall(a), _NUM.findall(b)
    return len(na) == len(nb) and all(math.isclose(float(x), float(y), rel_tol=1e-9, abs_tol=1e-12) for x, y in zip(na, nb))


def equal(a: Any, b: Any, approx: bool = False) -> bool:
    """Type-strict deep equality; floats bit-exact unless ``approx`` (range-derived sweep values)."""
    if isinstance(a, bool) or isinstance(b, bool):
        return isinstance(a, bool) and isinstance(b, bool) and a == b
    if isinstance(a, float) and isinstance(b, float):
        if a == b or (math.isnan(a) and math.isnan(b)):
            return True
        # approx = values derived from a range sweep (numpy's progression vs the reference's own): sums of such values can
        # cancel to ~1e-12 instead of 0.0 and a square root lifts that to ~1e-6, hence the absolute term
        return approx and math.isclose(a, b, rel_tol=1e-9, abs_tol=1e-5)
    if isinstance(a, (int, float)) and isinstance(b, (int, float)):
        return type(a) is type(b) and a == b
    if isinstance(a, str) and isinstance(b, str):
        return a == b or (approx and _str_close(a, b))
    if isinstance(a, list) and isinstance(b, list):
        return len(a) == len(b) and all(equal(x, y, approx) for x, y in zip(a, b))
    if isinstance(a, dict) and isinstance(b, dict):
        return set(a) == set(b) and all(equal(a[k], b[k], approx) for k in a)
    return a is None and b is None


def exc_matches(exc: BaseException, expected_name: str) -> bool:
    from . import components

    cls = getattr(builtins, expected_name, None) or getattr(components, expected_name, None)
    if cls is None:
        return type(exc).__name__ == expected_name
    return isinstance(exc, cls)


# ---- recording transport ------------------------------------------------------------------------------
def make_recorder():
    from semantiva.execution.transport import SemantivaTransport

    class RecordingTransport(SemantivaTransport):
        def __init__(self) -> None:
            self.records: List[Dict[str, Any]] = []

        def connect(self) -> None:  # pragma: no cover - unused
            return None

        def close(self) -> None:  # pragma: no cover - unused
            return None

        def publish(self, channel, data, context, metadata=None, require_ack=False):
            self.records.append({"channel": channel, "data": norm_data(data), "ctx": norm_ctx(context)})
            return None

        def subscribe(self, channel, *, callback=None):  # pragma: no cover - unused
            raise NotImplementedError

    return RecordingTransport()


def _odd_table() -> Dict[str, Any]:
    import decimal
    import fractions

    import numpy as np

    return {
        "mixed_key_dict": lambda: {1: "x", "b": "y", "k": 2.0},
        "tuple_key_dict": lambda: {(1, 2): 3.0},
        "none_key_dict": lambda: {None: 1.0, "k": 2.0},
        "bool_float_key_dict": lambda: {True: 1, 1.5: 2},
        "set": lambda: {1.0, 2.0},
        "frozenset": lambda: frozenset(["a"]),
        "tuple": lambda: (1.0, (2.0, "x")),
        "bytes": lambda: b"\xff\x00abc",
        "complex": lambda: 1 + 2j,
        "lone_surrogate": lambda: "caf\udce9",
        "non_ascii": lambda: "na\u00efve \u00b5m \u6f22",
        "big_int": lambda: 10 ** 400,
        "decimal": lambda: decimal.Decimal("1.50"),
        "fraction": lambda: fractions.Fraction(1, 3),
        "nan_in_list": lambda: [1.0, float("nan")],
        "inf_in_dict": lambda: {"k": float("inf")},
        "numpy_array": lambda: np.array([1.0, 2.0, 3.0]),
        "numpy_scalar": lambda: np.float32(2.5),
        "numpy_int_key_dict": lambda: {np.int64(3): 1.0},
        "range": lambda: range(3),
        "deep_list": lambda: [[[[[[1.0]]]]]],
        "long_string": lambda: "x" * 5000,
        "empty_dict": lambda: {},
        "nested_mixed": lambda: {"k": 2.0, "deep": [{"a": 1, 2: (3, 4)}]},
        "numpy_0d": lambda: np.array(1.5),
        "class_object": lambda: dict,
    }


ODD_NAMES = ["mixed_key_dict", "tuple_key_dict", "none_key_dict", "bool_float_key_dict", "set", "frozenset", "tuple", "bytes", "complex",
             "lone_surrogate", "non_ascii", "big_int", "decimal", "fraction", "nan_in_list", "inf_in_dict", "numpy_array", "numpy_scalar",
             "numpy_int_key_dict", "range", "deep_list", "long_string", "empty_dict", "nested_mixed", "numpy_0d", "class_object"]


def materialise_odd(obj: Any) -> Any:
    """Replace {"$odd": name} markers (JSON-representable stand-ins in cases) by the Python value they name."""
    if isinstance(obj, dict):
        if set(obj) == {"$odd"}:
            return _odd_table()[obj["$odd"]]()
        return {k: materialise_odd(v) for k, v in obj.items()}
    if isinstance(obj, list):
        return [materialise_odd(v) for v in obj]
    return obj


def run_real(case: Dict[str, Any], trace: Any = None, pipeline: Any = None) -> Dict[str, Any]:
    """Execute the case through semantiva. Returns outcome, per-node published post-states, exception."""
    ensure_registered()
    from semantiva.pipeline import Payload, Pipeline

    out: Dict[str, Any] = {"constructed": False}
    rec = make_recorder()
    try:
        if pipeline is None:
            pipeline = Pipeline(materialise_odd(M.to_config(case)), transport=rec, trace=trace)
        else:
            pipeline.transport = rec
            pipeline.trace = trace
        out["constructed"] = True
        out["pipeline"] = pipeline
    except BaseException as exc:  # noqa: BLE001
        out.update(ok=False, exc=exc, exc_type=type(exc).__name__, published=[], stage="construct")
        return out
    import copy

    ctx = materialise_odd(copy.deepcopy(case.get("ctx") or {}))
    from . import components as _components

    _components.INIT_FAULT["kind"] = case.get("init_fault")  # construction-time fault, armed for this call only
    try:
        res = pipeline.process(Payload(build_data(case.get("data")), ctx))
        out.update(ok=True, data=norm_data(res.data), ctx=norm_ctx(res.context), published=rec.records,
                   n_last_nodes=len(pipeline.orchestrator.last_nodes))
    except BaseException as exc:  # noqa: BLE001
        tb_funcs = []
        tb = exc.__traceback__
        while tb is not None:
            tb_funcs.append((os.path.basename(tb.tb_frame.f_code.co_filename), tb.tb_frame.f_code.co_name))
            tb = tb.tb_next
        out.update(ok=False, exc=exc, exc_type=type(exc).__name__, published=rec.records, stage="run",
                   tb_funcs=tb_funcs, n_last_nodes=len(getattr(pipeline.orchestrator, "last_nodes", [])))
    finally:
        _components.INIT_FAULT["kind"] = None
    return out
