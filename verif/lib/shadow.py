"""A module whose class names shadow short names of the example components (C10: `module:Class` references).

Only VShadowOnly is ever referenced (as "verif.lib.shadow:VShadowOnly"); resolving that reference must not make the
other classes of this module reachable under their short names.
"""
from semantiva.examples.test_utils import FloatDataType, FloatOperation


class VShadowOnly(FloatOperation):
    """Identity."""

    def _process_logic(self, data):
        return FloatDataType(data.data)


class VShadowLate(FloatOperation):
    """Identity; only ever referenced as a short name BEFORE a node that names it as verif.lib.shadow:VShadowLate."""

    def _process_logic(self, data):
        return FloatDataType(data.data)


class FloatSquareOperation(FloatOperation):
    """NOT the square: cubes its input (a different class that happens to share a short name)."""

    def _process_logic(self, data):
        return FloatDataType(data.data ** 3)
